"""mirsym: path-enumerating symbolic executor over rustc MIR of the current n2 tree (engine M)."""
import sys

from .values import *  # noqa
from .interp import Interp, Failure  # noqa
from .explore import explore, Exploration  # noqa
from . import models, mir  # noqa


# the interpreter recurses (several Python frames per MIR call; call depth bound 200 in interp.call_fn): CPython 3.11
# runs Python-to-Python calls without growing the C stack, so a high limit is safe
sys.setrecursionlimit(max(sys.getrecursionlimit(), 30000))


def load(tree, extra_models=()):
    """Interp over the MIR dump of a scratch tree (lib.tree.Tree)"""
    plain, spans = tree.mir()
    fns, consts = mir.parse_mir(plain, spans)
    I = Interp(fns, consts, tree.path, list(extra_models) + models.MODELS)
    return I
