"""mirsym: path-enumerating symbolic executor over rustc MIR of the current n2 tree (engine M)."""
from .values import *  # noqa
from .interp import Interp, Failure  # noqa
from .explore import explore, Exploration  # noqa
from . import models, mir  # noqa


def load(tree, extra_models=()):
    """Interp over the MIR dump of a scratch tree (lib.tree.Tree)"""
    plain, spans = tree.mir()
    fns, consts = mir.parse_mir(plain, spans)
    I = Interp(fns, consts, tree.path, list(extra_models) + models.MODELS)
    return I
