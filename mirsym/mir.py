"""Parser for rustc's textual MIR (`-Zunpretty=mir`).  Statements, places, operands and rvalues are parsed once
per distinct string into small tuples and cached; the interpreter dispatches on the tuple tag."""
import re
import os

from .values import Unsupported, INT_W


class Fn:
    __slots__ = ('name', 'sig', 'nargs', 'local_ty', 'blocks', 'file', 'ret', 'line', 'last', 'impl_ty', 'arg_tys')

    def __init__(self, name, sig):
        self.name, self.sig = name, sig
        self.nargs = 0
        self.local_ty = {}
        self.blocks = {}   # bb -> [raw stmt strings..., raw terminator]  (replaced by parsed lists on first use)
        self.file = None
        self.ret = None
        self.line = None
        self.last = None
        self.impl_ty = None
        self.arg_tys = []


_ARG_RE = re.compile(r'_(\d+): ((?:[^,<>()\[\]]|->|<(?:[^<>]|->|<(?:[^<>]|->|<(?:[^<>]|->)*>)*>)*>|\((?:[^()]|\((?:[^()]|\([^()]*\))*\))*\)|\[[^\[\]]*\])+)')


def last_seg(name):
    name = re.sub(r'::\{closure#\d+\}', lambda m: m.group(0).replace('::', '@@'), name)
    # strip a trailing ::promoted[k]
    pm = re.search(r'::promoted\[\d+\]$', name)
    tail = ''
    if pm:
        tail = pm.group(0)
        name = name[:pm.start()]
    depth = 0
    cut = 0
    i = 0
    while i < len(name):
        ch = name[i]
        if ch in '<([':
            depth += 1
        elif ch in '>)]' and not (ch == '>' and i > 0 and name[i - 1] == '-'):
            depth -= 1
        elif depth == 0 and name.startswith('::', i):
            cut = i + 2
            i += 1
        i += 1
    return name[cut:].replace('@@', '::') + tail


ALLOCS = {}      # allocN -> bytes of the constant allocation (None for bytes that hold a relocation)
_alloc_cur = None


def _alloc_line(line):
    """constant allocations printed after a body: `allocN (size: K, align: A) {` / hex rows / `}`"""
    global _alloc_cur
    m = re.match(r'^(alloc\d+) \(size: (\d+), align: \d+\) \{(.*)$', line)
    if m:
        _alloc_cur = m.group(1)
        ALLOCS[_alloc_cur] = []
        if m.group(3).strip().endswith('}'):
            _alloc_cur = None
        return True
    if _alloc_cur is None:
        return False
    if line.strip() == '}':
        _alloc_cur = None
        return True
    row = line
    if '\u2502' in row:
        parts = row.split('\u2502')
        row = parts[-2] if len(parts) >= 2 else parts[0]
    for tok in row.split():
        if re.match(r'^[0-9a-f]{2}$', tok):
            ALLOCS[_alloc_cur].append(int(tok, 16))
        elif tok == '__':
            ALLOCS[_alloc_cur].append(None)
    return True


def parse_mir(path, span_path=None):
    fns = []
    consts = {}
    cur = None
    bb = None
    for line in open(path):
        line = line.rstrip('\n')
        if cur is None and (_alloc_cur is not None or line.startswith('alloc')) and _alloc_line(line):
            continue
        if line.startswith('const ') or line.startswith('static '):
            mc = re.match(r'^const (.*::promoted\[\d+\]): (.*) = \{$', line)
            if mc:
                cur = Fn(mc.group(1), 'fn %s() -> %s {' % (mc.group(1), mc.group(2)))
                cur.ret = mc.group(2)
                fns.append(cur)
                bb = None
                continue
            mc = re.match(r'^(?:const|static) ([\w:<>]+): (.*) = \{$', line)
            if mc:  # named const with a body
                cur = Fn('const ' + mc.group(1), 'fn %s() -> %s {' % (mc.group(1), mc.group(2)))
                cur.ret = mc.group(2)
                fns.append(cur)
                bb = None
                continue
            mc = re.match(r'^const ([\w:]+): ([\w:]+) = const (.*);$', line)
            if mc:
                consts[mc.group(1)] = mc.group(3)
            continue
        if line.startswith('fn '):
            m = re.match(r'fn (.*?)\((.*)\) -> (.*) \{$', line)
            if not m:
                cur = None
                continue
            cur = Fn(m.group(1), line)
            cur.ret = m.group(3)
            for am in _ARG_RE.finditer(m.group(2)):
                cur.local_ty[int(am.group(1))] = am.group(2).strip()
                cur.arg_tys.append(am.group(2).strip())
            cur.nargs = len(cur.arg_tys)
            fns.append(cur)
            bb = None
            continue
        if cur is None:
            continue
        if line == '}':
            cur = None
            continue
        s = line.strip()
        if not s:
            continue
        if s.startswith('let '):
            m = re.match(r'let (?:mut )?_(\d+): (.*);$', s)
            if m:
                cur.local_ty[int(m.group(1))] = m.group(2)
            continue
        m = re.match(r'bb(\d+)(?: \(cleanup\))?: \{$', s)
        if m:
            bb = []
            cur.blocks[int(m.group(1))] = bb
            continue
        if bb is not None and s != '}' and not s.startswith('debug ') and not s.startswith('scope '):
            bb.append(s)
    for f in fns:
        f.local_ty[0] = f.ret
        f.last = last_seg(f.name)
        m = re.search(r'<impl at ([\w/.\-]+\.rs):(\d+):', f.name)
        if m:
            f.line = (m.group(1), int(m.group(2)))
    if span_path:
        i = -1
        want = False
        for line in open(span_path):
            # an item counts here exactly when the first pass appended a Fn for it (same header tests), so that the
            # two dumps stay aligned whatever other items (statics of thread_local!, fn-typed consts) appear
            if line.startswith('fn '):
                if re.match(r'fn (.*?)\((.*)\) -> (.*) \{$', line.rstrip('\n')):
                    i += 1
                    want = True
                continue
            if line.startswith('const ') or line.startswith('static '):
                ln = line.rstrip('\n')
                if re.match(r'^const (.*::promoted\[\d+\]): (.*) = \{$', ln) or re.match(r'^(?:const|static) ([\w:<>]+): (.*) = \{$', ln):
                    i += 1
                    want = False
                # promoted consts belong to the file of their function; resolved below
                continue
            if want:
                m = re.search(r' at ([\w/.\-]+\.rs):\d+:', line)
                if m and i < len(fns):
                    fns[i].file = m.group(1)
                    want = False
    return fns, consts


# ------------------------------------------------------------------------------------------------ text helpers
def split_top(s, sep=','):
    """split on sep at nesting depth 0, respecting strings/chars and ( [ { < nesting ('->' is not a bracket)"""
    out, depth, cur = [], 0, []
    i, n = 0, len(s)
    while i < n:
        ch = s[i]
        if ch == '"':
            j = i + 1
            while j < n and s[j] != '"':
                if s[j] == '\\':
                    j += 1
                j += 1
            cur.append(s[i:j + 1])
            i = j + 1
            continue
        if ch == "'" :
            # char literal ('x', '\n', '\u{1f}') vs lifetime ('a, '_)
            m = re.match(r"'(\\u\{[0-9a-fA-F]+\}|\\.|[^'\\])'", s[i:])
            if m:
                cur.append(m.group(0))
                i += len(m.group(0))
                continue
        if ch in '([{<':
            depth += 1
        elif ch in ')]}':
            depth -= 1
        elif ch == '>':
            if not (i > 0 and s[i - 1] == '-') and not (i > 0 and s[i - 1] == '='):
                depth -= 1
        if depth == 0 and s.startswith(sep, i):
            out.append(''.join(cur).strip())
            cur = []
            i += len(sep)
            continue
        cur.append(ch)
        i += 1
    t = ''.join(cur).strip()
    if t:
        out.append(t)
    return out


def _match_paren(s, i):
    """s[i] == '(' -> index of the matching ')' (only round brackets counted; strings skipped)"""
    depth = 0
    n = len(s)
    while i < n:
        ch = s[i]
        if ch == '"':
            i += 1
            while i < n and s[i] != '"':
                if s[i] == '\\':
                    i += 1
                i += 1
        elif ch == "'":
            m = re.match(r"'(\\u\{[0-9a-fA-F]+\}|\\.|[^'\\])'", s[i:])
            if m:
                i += len(m.group(0)) - 1
        elif ch == '(':
            depth += 1
        elif ch == ')':
            depth -= 1
            if depth == 0:
                return i
        i += 1
    raise Unsupported('unbalanced: ' + s)


# ------------------------------------------------------------------------------------------------ places
_place_cache = {}


def parse_place(s):
    r = _place_cache.get(s)
    if r is None:
        r, rest = _place(s.strip(), 0)
        if rest != len(s.strip()):
            raise Unsupported('place tail: ' + s)
        _place_cache[s] = r
    return r


def _place(s, i):
    """returns ((local, projections tuple), next index)"""
    if s[i] == '_':
        m = re.match(r'_(\d+)', s[i:])
        base = (int(m.group(1)), ())
        i += len(m.group(0))
    elif s[i] == '(':
        j = _match_paren(s, i)
        inner = s[i + 1:j]
        if inner.startswith('*'):
            (loc, proj), k = _place(inner, 1)
            if k != len(inner):
                raise Unsupported('place deref tail: ' + s)
            base = (loc, proj + (('deref',),))
        else:
            (loc, proj), k = _place(inner, 0)
            rest = inner[k:]
            m = re.match(r'^\.(\d+): ', rest)
            if m:
                base = (loc, proj + (('field', int(m.group(1))),))
            else:
                m = re.match(r'^ as (\w+)$', rest)
                if m:
                    base = (loc, proj + (('downcast', m.group(1)),))
                else:
                    raise Unsupported('place proj: ' + s)
        i = j + 1
    else:
        raise Unsupported('place: ' + s)
    # trailing index projections
    while i < len(s) and s[i] == '[':
        j = s.index(']', i)
        idx = s[i + 1:j]
        m = re.match(r'^_(\d+)$', idx)
        if m:
            base = (base[0], base[1] + (('index', int(m.group(1))),))
        else:
            m = re.match(r'^(-?)(\d+) of (\d+)$', idx)
            if m:
                base = (base[0], base[1] + (('cindex', int(m.group(2)), bool(m.group(1))),))
            else:
                m = re.match(r'^(\d+):(-?)(\d*)$', idx)
                if m:
                    base = (base[0], base[1] + (('subslice', int(m.group(1)), int(m.group(3) or 0), bool(m.group(2))),))
                else:
                    raise Unsupported('place index: ' + s)
        i = j + 1
    return base, i


# ------------------------------------------------------------------------------------------------ operands
_operand_cache = {}


def parse_operand(s):
    r = _operand_cache.get(s)
    if r is None:
        r = _operand(s.strip())
        _operand_cache[s] = r
    return r


_CH = {'\\n': '\n', '\\0': '\0', '\\r': '\r', '\\t': '\t', "\\'": "'", '\\\\': '\\', '\\"': '"'}


def parse_char(body):
    if body in _CH:
        return ord(_CH[body])
    if body.startswith('\\u{'):
        return int(body[3:-1], 16)
    if body.startswith('\\x'):
        return int(body[2:], 16)
    return ord(body)


def parse_str_lit(body):
    """body of a MIR string literal (Rust escape syntax) -> bytes"""
    out = bytearray()
    i = 0
    while i < len(body):
        ch = body[i]
        if ch == '\\':
            nx = body[i + 1]
            if nx == 'u':
                j = body.index('}', i)
                out += chr(int(body[i + 3:j], 16)).encode('utf-8')
                i = j + 1
                continue
            if nx == 'x':
                out.append(int(body[i + 2:i + 4], 16))
                i += 4
                continue
            out += {'n': b'\n', 'r': b'\r', 't': b'\t', '0': b'\0', '\\': b'\\', '"': b'"', "'": b"'"}[nx]
            i += 2
            continue
        out += ch.encode('utf-8')
        i += 1
    return bytes(out)


def _operand(s):
    if s.startswith('copy '):
        return ('copy', parse_place(s[5:]))
    if s.startswith('move '):
        return ('move', parse_place(s[5:]))
    if s.startswith('no_retag '):
        return _operand(s[9:])
    if s.startswith('const '):
        return ('const', _const(s[6:].strip()))
    if re.match(r"^[A-Za-z_][\w:<>', ]*$", s):
        return ('const', ('path', s))   # fn item / tuple-struct constructor used as a value
    if re.match(r"^<[\w:<>&', \[\]]+ as [\w:<>&', \[\]]+>::\w+(::<.*>)?$", s):
        return ('const', ('path', s))   # trait method item used as a value (e.g. Option::map(PathBuf::from))
    raise Unsupported('operand: ' + s)


def _const(c):
    m = re.match(r'^(-?\d+)_(\w+)$', c)
    if m and m.group(2) in INT_W:
        return ('int', INT_W[m.group(2)], int(m.group(1)), m.group(2)[0] == 'i')
    if c == 'true':
        return ('bool', True)
    if c == 'false':
        return ('bool', False)
    if c == '()':
        return ('unit',)
    m = re.match(r"^'(.*)'$", c, re.S)
    if m:
        return ('int', 32, parse_char(m.group(1)), False)
    m = re.match(r'^"(.*)"$', c, re.S)
    if m:
        return ('str', parse_str_lit(m.group(1)))
    m = re.match(r'^b"(.*)"$', c, re.S)
    if m:
        return ('bytes', parse_str_lit(m.group(1)))
    m = re.search(r'::promoted\[(\d+)\]$', c)
    if m:
        return ('promoted', int(m.group(1)), c)
    m = re.match(r'^(-?[\d.]+(?:[eE][-+]?\d+)?)(f32|f64)$', c)
    if m:
        return ('float', float(m.group(1)))
    m = re.match(r'^Slice \{ alloc_id: (alloc\d+), meta: (\d+) \}: (.*)$', c)
    if m:
        return ('calloc', m.group(1), int(m.group(2)), m.group(3))
    if c.startswith('{') or c.startswith('ZeroSized'):
        return ('opaque', c)
    m = re.match(r'^(?:core::|std::)?(?:num::<impl ([ui](?:8|16|32|64|size))>|([ui](?:8|16|32|64|size)))::(MAX|MIN|BITS)$', c)
    if m:
        ty = m.group(1) or m.group(2)
        w, sg = INT_W[ty], ty[0] == 'i'
        if m.group(3) == 'BITS':
            return ('int', 32, w, False)
        if m.group(3) == 'MAX':
            return ('int', w, (1 << (w - 1)) - 1 if sg else (1 << w) - 1, sg)
        return ('int', w, -(1 << (w - 1)) if sg else 0, sg)
    return ('path', c)


# ------------------------------------------------------------------------------------------------ rvalues
BINOPS = {'Add', 'Sub', 'Mul', 'Div', 'Rem', 'Eq', 'Ne', 'Lt', 'Le', 'Gt', 'Ge', 'BitAnd', 'BitOr', 'BitXor',
          'AddWithOverflow', 'SubWithOverflow', 'MulWithOverflow', 'Shl', 'Shr', 'AddUnchecked', 'SubUnchecked',
          'MulUnchecked', 'ShlUnchecked', 'ShrUnchecked', 'Offset', 'Cmp'}
UNOPS = {'Not', 'Neg', 'PtrMetadata'}
CASTS = ('IntToInt', 'IntToFloat', 'FloatToInt', 'FloatToFloat', 'PtrToPtr', 'FnPtrToPtr', 'Transmute',
         'PointerCoercion', 'PointerExposeProvenance', 'PointerWithExposedProvenance')
_CAST_RE = re.compile(r'^(.*) as (.*) \((' + '|'.join(CASTS) + r')(\(.*\))?\)$')

_rvalue_cache = {}


def parse_rvalue(s):
    r = _rvalue_cache.get(s)
    if r is None:
        r = _rvalue(s.strip())
        _rvalue_cache[s] = r
    return r


def type_last(t):
    """last path segment of a type/constructor path, generics stripped: std::option::Option<T> -> Option"""
    t = re.sub(r"::<.*$", '', t.strip())
    t = re.sub(r'<.*$', '', t)
    return t.split('::')[-1]


def _rvalue(s):
    if s.endswith(')'):
        m = _CAST_RE.match(s)
        if m and not s.startswith(('&', '[', '(')):
            return ('cast', m.group(3), parse_operand(m.group(1)), m.group(2).strip(), m.group(4) or '')
    if s.startswith(('copy ', 'move ', 'const ', 'no_retag ')):
        return ('use', parse_operand(s))
    if s.startswith('&raw const (fake) '):
        return ('ref', parse_place(s[len('&raw const (fake) '):]))
    if s.startswith('&raw const '):
        return ('ref', parse_place(s[len('&raw const '):]))
    if s.startswith('&raw mut '):
        return ('ref', parse_place(s[len('&raw mut '):]))
    if s.startswith('&mut '):
        return ('ref', parse_place(s[5:]))
    if s.startswith('&(fake shallow) ') or s.startswith('&fake shallow '):
        return ('ref', parse_place(s.split(') ', 1)[1] if s.startswith('&(') else s[len('&fake shallow '):]))
    if s.startswith('&'):
        return ('ref', parse_place(s[1:]))
    m = re.match(r'^(\w+)\((.*)\)$', s, re.S)
    if m:
        head = m.group(1)
        if head in BINOPS:
            a, b = split_top(m.group(2))
            return ('binop', head, parse_operand(a), parse_operand(b))
        if head in UNOPS:
            return ('unop', head, parse_operand(m.group(2)))
        if head == 'discriminant':
            return ('discr', parse_place(m.group(2)))
        if head == 'Len':
            return ('len', parse_place(m.group(2)))
        if head == 'CopyForDeref':
            return ('use', ('copy', parse_place(m.group(2))))
        if head == 'ShallowInitBox':
            raise Unsupported('ShallowInitBox')
    m = _CAST_RE.match(s)
    if m:
        return ('cast', m.group(3), parse_operand(m.group(1)), m.group(2).strip(), m.group(4) or '')
    # aggregates
    m = re.match(r'^\{closure@([^}]*)\}(?: \{ (.*) \})?$', s, re.S)
    if m:
        fields = []
        if m.group(2):
            for fa in split_top(m.group(2)):
                fields.append(parse_operand(fa.split(': ', 1)[1]))
        return ('agg', 'closure@' + m.group(1), None, tuple(fields), s)
    if s.startswith('['):
        inner = s[1:-1]
        parts = split_top(inner, ';')
        if len(parts) == 2 and re.match(r'^\d+$', parts[1].strip()):
            return ('repeat', parse_operand(parts[0]), int(parts[1]))
        if len(parts) == 2 and re.match(r'^[A-Z_][A-Z0-9_]*$', parts[1].strip()):
            return ('repeat', parse_operand(parts[0]), parts[1].strip())
        return ('agg', 'array', None, tuple(parse_operand(x) for x in split_top(inner)), s)
    if s.startswith('('):
        return ('agg', 'tuple', None, tuple(parse_operand(x) for x in split_top(s[1:-1])), s)
    # Adt forms: Path::<G>::Variant(ops) | Path::<G> { f: op } | Path(ops) | Path::Variant | Path::Variant { .. }
    if s.endswith(')'):
        depth = 0
        j = None
        i = len(s) - 1
        instr = False
        while i >= 0:
            ch = s[i]
            if ch == '"' and (i == 0 or s[i - 1] != '\\'):
                instr = not instr
            elif not instr:
                if ch == ')':
                    depth += 1
                elif ch == '(':
                    depth -= 1
                    if depth == 0:
                        j = i
                        break
            i -= 1
        path = s[:j]
        ops = tuple(parse_operand(x) for x in split_top(s[j + 1:-1]))
    elif s.endswith(' }'):
        parts = split_top(s, ' { ')
        path = parts[0]
        body = s[len(path) + 3:-2]
        ops = tuple(parse_operand(fa.split(': ', 1)[1]) for fa in split_top(body))
    else:
        path = s
        ops = ()
    if not re.match(r'^[A-Za-z_<]', path):
        raise Unsupported('rvalue: ' + s)
    return ('adt', path, ops)


# ------------------------------------------------------------------------------------------------ statements
_stmt_cache = {}
_SKIP = ('StorageLive', 'StorageDead', 'FakeRead', 'PlaceMention', 'AscribeUserType', 'nop', 'Retag', 'Coverage',
         'ConstEvalCounter', 'BackwardIncompatibleDropHint')


def parse_stmt(s):
    r = _stmt_cache.get(s)
    if r is None:
        r = _stmt(s)
        _stmt_cache[s] = r
    return r


def _stmt(s):
    if s.startswith(_SKIP):
        return ('nop',)
    m = re.match(r'^assume\((.*)\);$', s)
    if m:
        return ('assume', parse_operand(m.group(1)))
    m = re.match(r'^Deinit\((.*)\);$', s)
    if m:
        return ('nop',)
    m = re.match(r'^discriminant\((.*)\) = (\d+);$', s)
    if m:
        return ('setdiscr', parse_place(m.group(1)), int(m.group(2)))
    i = s.find(' = ')
    if i < 0 or not s.endswith(';'):
        raise Unsupported('stmt: ' + s)
    return ('assign', parse_place(s[:i]), parse_rvalue(s[i + 3:-1]))


_term_cache = {}


def parse_term(s):
    r = _term_cache.get(s)
    if r is None:
        r = _term(s)
        _term_cache[s] = r
    return r


def _term(s):
    if s == 'return;':
        return ('return',)
    m = re.match(r'^goto -> bb(\d+);$', s)
    if m:
        return ('goto', int(m.group(1)))
    if s == 'unreachable;':
        return ('unreachable',)
    if s.startswith('resume') or s.startswith('terminate') or s.startswith('abort'):
        return ('abort', s)
    m = re.match(r'^switchInt\((.*)\) -> \[(.*)\];$', s)
    if m:
        arms = []
        other = None
        for a in m.group(2).split(', '):
            k, t = a.split(': bb')
            if k == 'otherwise':
                other = int(t)
            else:
                arms.append((int(k), int(t)))
        return ('switch', parse_operand(m.group(1)), tuple(arms), other)
    m = re.match(r'^assert\((!?)(.*?), (".*)\) -> \[success: bb(\d+), unwind.*\];$', s, re.S)
    if m:
        return ('assert', bool(m.group(1)), parse_operand(m.group(2)), m.group(3)[:100], int(m.group(4)))
    m = re.match(r'^drop\((.*)\) -> \[return: bb(\d+), unwind.*\];$', s)
    if m:
        return ('drop', parse_place(m.group(1)), int(m.group(2)))
    m = re.match(r'^(.*\)) -> (?:\[return: bb(\d+), unwind.*\]|unwind.*);$', s, re.S)
    if m:
        head, ret = m.group(1), m.group(2)
        # find the '(' that opens the argument list: matching paren of the final ')'
        depth = 0
        j = None
        i = len(head) - 1
        instr = False
        while i >= 0:
            ch = head[i]
            if ch == '"' and (i == 0 or head[i - 1] != '\\'):
                instr = not instr
            elif not instr:
                if ch == ')':
                    depth += 1
                elif ch == '(':
                    depth -= 1
                    if depth == 0:
                        j = i
                        break
            i -= 1
        argstr = head[j + 1:-1]
        pre = head[:j]
        k = pre.find(' = ')
        if k >= 0 and re.match(r'^[_(]', pre):
            dest, callee = parse_place(pre[:k]), pre[k + 3:].strip()
        else:
            dest, callee = None, pre.strip()
        args = tuple(parse_operand(a) for a in split_top(argstr))
        if callee.startswith('move ') or callee.startswith('copy '):
            return ('callptr', dest, parse_operand(callee), args, int(ret) if ret is not None else None)
        return ('call', dest, callee, args, int(ret) if ret is not None else None)
    raise Unsupported('terminator: ' + s)


def src_enums(root):
    """enum name -> [variant names] for every enum declared in the crate source (declaration order = discriminant)"""
    import glob
    out = {}
    for p in sorted(glob.glob(os.path.join(root, 'src', '*.rs'))) + sorted(glob.glob(os.path.join(root, 'hooks', '*.rs'))):
        txt = open(p).read()
        for m in re.finditer(r'\benum (\w+)[^{;]*\{(.*?)\n\s*\}', txt, re.S):
            body = re.sub(r'//[^\n]*', '', m.group(2))
            # strip nested payloads
            prev = None
            while prev != body:
                prev = body
                body = re.sub(r'\([^()]*\)|\{[^{}]*\}|<[^<>]*>', '', body)
            names = []
            for x in body.split(','):
                x = re.sub(r'#\[[^\]]*\]\s*', '', x).strip()
                x = re.sub(r'\s*=.*$', '', x)
                if re.match(r'^\w+$', x):
                    names.append(x)
            if names:
                out[m.group(1)] = names
    return out
