"""mirsym interpreter: executes rustc MIR one path at a time; every branch on a symbolic value, every bounds /
overflow / unchecked-access obligation is a z3 query.  Heap shape is concrete per path."""
import collections
import os
import re
import time

import z3

from . import mir
from .mir import parse_stmt, parse_term
from .values import (Agg, BoolV, Cell, FnRef, IntV, Opaque, PathEnd, Ref, SliceRef, UNINIT, UNIT, Unsupported,
                     deep_copy, INT_W)

STD_ENUMS = {
    'Option': ['None', 'Some'], 'Result': ['Ok', 'Err'], 'ControlFlow': ['Continue', 'Break'],
    'Cow': ['Borrowed', 'Owned'], 'Ordering': ['Less', 'Equal', 'Greater'], 'Entry': ['Occupied', 'Vacant'],
}


class _Frame(dict):
    """locals of one activation; cells are created on first use (big functions have hundreds of locals)"""
    __slots__ = ()

    def __missing__(self, k):
        c = Cell(UNINIT)
        self[k] = c
        return c


class Failure:
    """an obligation that can be violated on this path, with a model"""
    __slots__ = ('key', 'desc', 'model', 'extra')

    def __init__(self, key, desc, model, extra=None):
        self.key, self.desc, self.model, self.extra = key, desc, model, extra


def _strip_generics(c):
    """remove every ::<...> group (balanced, '->' aware)"""
    out = []
    i, n = 0, len(c)
    while i < n:
        if c.startswith('::<', i):
            depth = 0
            j = i + 2
            while j < n:
                ch = c[j]
                if ch == '<':
                    depth += 1
                elif ch == '>' and c[j - 1] != '-':
                    depth -= 1
                    if depth == 0:
                        break
                j += 1
            i = j + 1
            continue
        out.append(c[i])
        i += 1
    return ''.join(out)


def _generic_groups(c):
    """list of (position, [args]) for each ::<...> group in a call path"""
    out = []
    i, n = 0, len(c)
    while i < n:
        if c.startswith('::<', i):
            depth = 0
            j = i + 2
            while j < n:
                ch = c[j]
                if ch == '<':
                    depth += 1
                elif ch == '>' and c[j - 1] != '-':
                    depth -= 1
                    if depth == 0:
                        break
                j += 1
            out.append((i, [a for a in mir.split_top(c[i + 3:j]) if not a.startswith("'")]))
            i = j + 1
            continue
        i += 1
    return out


def _norm_ty(t):
    t = re.sub(r"'\w+\s*,?\s*", '', t)
    t = re.sub(r'\b(?:std|core|alloc)::(?:\w+::)*', '', t)
    t = re.sub(r'\b(?:crate::)?(?:[a-z_]\w*::)+', '', t)
    t = re.sub(r'<\s*>', '', t)
    return re.sub(r'\s+', '', t)


class Interp:
    def __init__(self, fns, consts, src_root, models, extra_enums=None):
        self.fns = fns
        self.consts = consts
        self.src_root = src_root
        self.by_name = {}
        self.by_last = collections.defaultdict(list)
        self.closures = {}
        for f in fns:
            self.by_name[f.name] = f
            self.by_last[f.last].append(f)
            m = re.match(r'^&(?:mut )?(\{closure@[^}]*\})', f.arg_tys[0]) if f.arg_tys else None
            if m and '{closure#' in f.name:
                self.closures[m.group(1)] = f
            elif f.arg_tys and f.arg_tys[0].startswith('{closure@') and '{closure#' in f.name:
                self.closures[re.match(r'^(\{closure@[^}]*\})', f.arg_tys[0]).group(1)] = f
        # promoted consts take the file of their parent fn
        for f in fns:
            if f.file is None and '::promoted[' in f.name:
                p = self.by_name.get(re.sub(r'::promoted\[\d+\]$', '', f.name))
                if p is not None:
                    f.file = p.file
        self.enums = dict(STD_ENUMS)
        self.enums.update(mir.src_enums(src_root))
        if extra_enums:
            self.enums.update(extra_enums)
        self.variant_owner = collections.defaultdict(list)
        for en, names in self.enums.items():
            for nm in names:
                self.variant_owner[nm].append(en)
        self.models = [(re.compile(p), fn) for p, fn in models]
        self.overrides = []          # harness-specific models, searched first
        self.stats = collections.Counter()
        self.fn_used = set()
        self.model_used = set()
        self._resolve_cache = {}
        self._impl_cache = {}
        self._src_cache = {}
        self._fnparams_cache = {}
        self._subst_cache = {}
        self._apply_cache = {}
        self._apply_cache2 = {}
        self._subst_pats = {}
        self.step_bound = 400000
        self.query_timeout_ms = 60000
        self.solver_time = 0.0
        self.hooks = {}              # harness monitors: name -> callable
        self.start_path([])

    def set_overrides(self, pairs):
        """harness-specific models [(regex, fn)], searched before the std models"""
        self.overrides = [(re.compile(p) if isinstance(p, str) else p, fn) for p, fn in pairs]
        self._resolve_cache = {}

    def add_enum(self, name, variants):
        self.enums[name] = list(variants)
        for nm in variants:
            if name not in self.variant_owner[nm]:
                self.variant_owner[nm].append(name)

    def fn(self, last, file=None, impl=None):
        """look a crate function up by its last path segment (+ source file / impl type when ambiguous)"""
        c = [f for f in self.by_last.get(last, []) if '::promoted[' not in f.name]
        if file:
            c = [f for f in c if f.file and f.file.endswith(file)]
        if impl:
            c = [f for f in c if self.impl_info(f)[0] == impl]
        if len(c) != 1:
            raise Unsupported('function lookup %s (file %s, impl %s): %s' % (last, file, impl, [f.name for f in c]))
        return c[0]

    # ------------------------------------------------------------------ path state
    def start_path(self, prefix):
        self.solver = z3.Solver()
        self.solver.set('timeout', self.query_timeout_ms)
        self.prefix = prefix
        self.decisions = []
        self.pending = []
        self.failures = []
        self.steps = 0
        self.symvars = {}
        self.curfn = []
        self.subst = [{}]
        self.depth = 0
        self.trace = []
        self.hasher_log = []
        self.fresh_n = 0
        self.tls = {}          # thread-local storage of the (single) modelled thread: LocalKey name -> Cell

    def fresh(self, name, w):
        """a named symbolic bit-vector input (registered so that models can be reported)"""
        if name in self.symvars:
            return self.symvars[name]
        v = z3.BitVec(name, w)
        self.symvars[name] = v
        return v

    def fresh_math(self, name, w=64, lo=0, hi=None):
        """integer-mode input: an unbounded z3 Int constrained to [lo, hi] (default: the unsigned machine range)"""
        if name not in self.symvars:
            self.symvars[name] = z3.Int(name)
        v = self.symvars[name]
        self.solver.add(v >= lo, v <= ((1 << w) - 1 if hi is None else hi))
        return IntV(w, v, False)

    def fresh_int(self, name, w, signed=False):
        return IntV(w, self.fresh(name, w), signed)

    def fresh_bool(self, name):
        if name in self.symvars:
            return BoolV(self.symvars[name])
        v = z3.Bool(name)
        self.symvars[name] = v
        return BoolV(v)

    def check(self):
        t = time.time()
        r = self.solver.check()
        if r == z3.unknown:
            # per-query time cap hit (non-linear integer queries can wander): retry on a fresh solver with other seeds
            for seed in (7, 23):
                s2 = z3.Solver()
                s2.set('timeout', self.query_timeout_ms * 2)
                s2.set('random_seed', seed)
                s2.add(self.solver.assertions())
                r = s2.check()
                if r != z3.unknown:
                    break
        self.solver_time += time.time() - t
        self.stats['queries'] += 1
        if r == z3.unknown:
            raise Unsupported('solver answered unknown: ' + self.solver.reason_unknown())
        return r

    def check_with(self, c):
        self.solver.push()
        self.solver.add(c)
        r = self.check()
        self.solver.pop()
        return r

    def decide(self, alts, exhaustive=False):
        """alts: [(label, z3 constraint)].  Returns the label followed on this path; the other feasible
        alternatives are queued as new path prefixes.  exhaustive=True promises the alternatives cover every
        value, which lets the last remaining one be taken without a query."""
        k = len(self.decisions)
        if k < len(self.prefix):
            lab = self.prefix[k]
            for l, c in alts:
                if l == lab:
                    self.solver.add(c)
                    self.decisions.append(lab)
                    return lab
            raise Unsupported('replay divergence at decision %d: %r not in %r' % (k, lab, [l for l, _ in alts]))
        feas = []
        n = len(alts)
        for i, (l, c) in enumerate(alts):
            if exhaustive and i == n - 1 and not feas:
                feas.append((l, c))
                break
            if self.check_with(c) == z3.sat:
                feas.append((l, c))
        if not feas:
            raise PathEnd('infeasible')
        for l, c in feas[1:]:
            self.pending.append(self.decisions + [l])
        l, c = feas[0]
        self.solver.add(c)
        self.decisions.append(l)
        self.stats['forks'] += len(feas) - 1
        return l

    def branch_bool(self, b):
        if b.conc():
            return b.v
        s = z3.simplify(b.v)
        if z3.is_true(s):
            return True
        if z3.is_false(s):
            return False
        return self.decide([(True, s), (False, z3.Not(s))], exhaustive=True)

    def choose(self, name, n, w=8):
        """symbolic choice among 0..n-1 (forks once per feasible value)"""
        if n == 1:
            return 0
        v = self.fresh(name, w)
        return self.decide([(i, v == i) for i in range(n)])

    def concretize(self, iv, what='value', limit=64):
        """fork over the feasible values of a symbolic integer (used for indices / lengths)"""
        if iv.conc():
            return iv.v
        alts = []
        k = len(self.decisions)
        if k < len(self.prefix):
            val = self.prefix[k][1]
            self.solver.add(iv.v == val)
            self.decisions.append(('val', val))
            return val
        self.solver.push()
        vals = []
        while len(vals) <= limit:
            if self.check() != z3.sat:
                break
            m = self.solver.model()
            val = m.eval(iv.v, model_completion=True).as_long()
            vals.append(val)
            self.solver.add(iv.v != val)
        self.solver.pop()
        if len(vals) > limit:
            raise Unsupported('too many values for %s' % what)
        if not vals:
            raise PathEnd('infeasible')
        vals.sort()
        for val in vals[1:]:
            self.pending.append(self.decisions + [('val', val)])
        self.solver.add(iv.v == vals[0])
        self.decisions.append(('val', vals[0]))
        self.stats['forks'] += len(vals) - 1
        return vals[0]

    def model_now(self):
        if self.check() == z3.sat:
            return self.model_dict(self.solver.model())
        return None

    def model_dict(self, m):
        out = {}
        for name, v in self.symvars.items():
            val = m.eval(v, model_completion=True)
            if z3.is_bool(val):
                out[name] = z3.is_true(val)
            else:
                out[name] = val.as_long()
        return out

    def fail(self, key, desc, model='now', end=True, extra=None):
        if model == 'now':
            model = self.model_now()
        self.failures.append(Failure(key, desc, model, extra))
        self.stats['violations'] += 1
        if end:
            raise PathEnd('fail:' + key)

    def oblige(self, b, key, desc=None, extra=None):
        """b must hold on every input reaching here.  A feasible violation is recorded (with a model) and the
        path continues under b."""
        self.stats['obligations'] += 1
        if b.conc():
            if not b.v:
                self.fail(key, desc or key, extra=extra)
            return
        s = z3.simplify(b.v)
        if z3.is_true(s):
            return
        if z3.is_false(s):
            self.fail(key, desc or key, extra=extra)
        self.solver.push()
        self.solver.add(z3.Not(s))
        if self.check() == z3.sat:
            self.failures.append(Failure(key, desc or key, self.model_dict(self.solver.model()), extra))
            self.stats['violations'] += 1
        self.solver.pop()
        self.solver.add(s)
        if self.failures and self.failures[-1].key == key:
            if self.check() != z3.sat:
                raise PathEnd('only failing')

    def assume(self, b):
        if b.conc():
            if not b.v:
                raise PathEnd('assume false')
            return
        self.solver.add(b.v)

    # ------------------------------------------------------------------ places
    def place(self, fr, pl):
        """(cell, path) for a parsed place"""
        loc, proj = pl
        cell = fr[loc]
        path = ()
        for p in proj:
            t = p[0]
            if t == 'deref':
                r = self.load(cell, path)
                if isinstance(r, Ref):
                    cell, path = r.cell, r.path
                elif isinstance(r, SliceRef):
                    cell, path = Cell(r), ()
                elif isinstance(r, Agg) and r.kind == 'Box':
                    cell, path = r.fields[0], ()
                elif isinstance(r, Opaque) and r.tag == 'const':
                    cell, path = Cell(Opaque('extern-static', r.parts)), ()     # `*{allocN: *const T}`: an extern static
                else:
                    raise Unsupported('deref of %r' % (r,))
            elif t == 'field':
                path = path + (('f', p[1]),)
            elif t == 'downcast':
                path = path + (('d', p[1]),)
            elif t == 'index':
                path = path + (('i', fr[p[1]].v),)
            elif t == 'cindex':
                path = path + (('ci', p[1], p[2]),)
            elif t == 'subslice':
                path = path + (('sub', p[1], p[2], p[3]),)
        return cell, path

    def load(self, cell, path):
        v = cell.v
        for st in path:
            v = self.step(v, st)
        return v

    def elems_of(self, v):
        """(list, start, len) view of an indexable value"""
        if isinstance(v, SliceRef):
            base = self.load(v.cell, v.path)
            return self.container_list(base), v.start, v.len
        lst = self.container_list(v)
        return lst, 0, len(lst)

    @staticmethod
    def container_list(base):
        if isinstance(base, Agg):
            if base.kind == 'String':
                return base.fields[0].fields
            return base.fields
        raise Unsupported('not a container: %r' % (base,))

    def step(self, v, st):
        k = st[0]
        if k == 'f':
            if not isinstance(v, Agg):
                raise Unsupported('field %d of %r' % (st[1], v))
            try:
                return v.fields[st[1]]
            except IndexError:
                raise Unsupported('field %d of %r' % (st[1], v))
        if k == 'd':
            if v.variant != st[1]:
                raise Unsupported('downcast %r as %s' % (v, st[1]))
            return v
        if k == 'i':
            lst, start, ln = self.elems_of(v)
            i = self.conc_index(st[1], ln)
            return lst[start + i]
        if k == 'ci':
            lst, start, ln = self.elems_of(v)
            i = ln - st[1] if st[2] else st[1]
            if not (0 <= i < ln):
                self.fail('index-oob', 'constant index %d out of bounds (len %d)' % (i, ln))
            return lst[start + i]
        if k == 'sub':
            lst, start, ln = self.elems_of(v)
            a = st[1]
            b = ln - st[2] if st[3] else (st[2] if st[2] else ln)
            if isinstance(v, SliceRef):
                return SliceRef(v.cell, v.path, v.start + a, b - a)
            raise Unsupported('subslice of non-slice')
        raise Unsupported(str(st))

    def conc_index(self, idx, length, what='index'):
        if isinstance(idx, int):
            i = idx
        elif idx.conc():
            i = idx.v
        else:
            inb = z3.And(idx.v >= 0, idx.v < length) if z3.is_int(idx.v) else z3.ULT(idx.v, z3.BitVecVal(length, idx.w))
            self.oblige(BoolV(inb), 'index-oob',
                        '%s out of bounds (len %d)' % (what, length))
            return self.concretize(idx, what)
        if not (0 <= i < length):
            self.fail('index-oob', '%s out of bounds: the len is %d but the index is %d' % (what, length, i))
        return i

    def store(self, cell, path, val):
        if not path:
            cell.v = val
            return
        v = cell.v
        for st in path[:-1]:
            v = self.step(v, st)
        st = path[-1]
        k = st[0]
        if k == 'f':
            v.fields[st[1]] = val
        elif k == 'i':
            lst, start, ln = self.elems_of(v)
            i = self.conc_index(st[1], ln)
            lst[start + i] = val
        elif k == 'ci':
            lst, start, ln = self.elems_of(v)
            i = ln - st[1] if st[2] else st[1]
            lst[start + i] = val
        elif k == 'd':
            raise Unsupported('store to downcast')
        else:
            raise Unsupported('store ' + str(st))

    def mkref(self, cell, path):
        v = self.load(cell, path)  # also validates the path
        if isinstance(v, SliceRef) and not path and isinstance(cell.v, SliceRef):
            return v
        return Ref(cell, path)

    def deref(self, r):
        """follow references to the referent value"""
        while isinstance(r, Ref):
            r = self.load(r.cell, r.path)
        return r

    # ------------------------------------------------------------------ operands / rvalues
    def operand(self, fr, op, f=None):
        t = op[0]
        if t == 'copy' or t == 'move':
            cell, path = self.place(fr, op[1])
            v = self.load(cell, path)
            if v is UNINIT and not path and f is not None:
                v = self._zst(f, op[1][0], cell)
            if v is UNINIT:
                raise Unsupported('read of uninitialised local %r in %s' % (op[1], f.name if f else '?'))
            if t == 'copy' and isinstance(v, Agg):
                return deep_copy(v)
            return v
        return self.const(op[1], f)

    def const(self, c, f):
        t = c[0]
        if t == 'int':
            return IntV(c[1], c[2], c[3])
        if t == 'bool':
            return BoolV(c[1])
        if t == 'unit':
            return UNIT
        if t == 'str' or t == 'bytes':
            obj = Agg('bytes', [IntV(8, b) for b in c[1]])
            return SliceRef(Cell(obj), (), 0, len(c[1]))
        if t == 'calloc':
            data = mir.ALLOCS.get(c[1])
            if data is None or len(data) < c[2] or any(b is None for b in data[:c[2]]):
                raise Unsupported('constant allocation %s not found in the MIR dump' % c[1])
            return SliceRef(Cell(Agg('bytes', [IntV(8, b) for b in data[:c[2]]])), (), 0, c[2])
        if t == 'promoted':
            pf = self.by_name.get(c[2])
            if pf is None:
                name = self.curfn[-1].name + '::promoted[%d]' % c[1]
                pf = self.by_name.get(name)
            if pf is None:
                raise Unsupported('promoted ' + c[2])
            return self.call_fn(pf, [])
        if t == 'path':
            p = c[1]
            g = self.subst[-1].get(p)
            if g is not None and re.match(r'^\d+(_usize)?$', g):
                return IntV(64, int(g.split('_')[0]))
            base = _strip_generics(p)
            segs = base.split('::')
            if segs[-1] in ('RangeFull', 'PhantomData'):
                return Agg(segs[-1], [])
            if len(segs) >= 2 and segs[-2] in self.enums and segs[-1] in self.enums[segs[-2]]:
                return Agg(segs[-2], [], segs[-1])
            if base in self.consts:
                return self.const(mir._const(self.consts[base]), f)
            for k, v in self.consts.items():
                if k.split('::')[-1] == segs[-1]:
                    return self.const(mir._const(v), f)
            cf = self.by_name.get('const ' + base) or self.by_name.get('const ' + segs[-1])
            if cf is None:
                for k, v in self.by_name.items():
                    if k.startswith('const ') and k.split('::')[-1] == segs[-1]:
                        cf = v
                        break
            if cf is not None:
                return self.call_fn(cf, [])
            ec = getattr(self, 'extern_consts', None)
            if ec and segs[-1] in ec and (len(segs) == 1 or segs[-2] == 'libc'):
                w, val, sg = ec[segs[-1]]
                return IntV(w, val, sg)
            return FnRef(p)
        if t == 'float':
            return Opaque('float', (c[1],))
        m = re.search(r'\{(closure@[^}]*)\}', c[1]) if isinstance(c[1], str) else None
        if m:
            return Agg(m.group(1), [])
        m = re.match(r'^ZeroSized: (.*)$', c[1]) if isinstance(c[1], str) else None
        if m:
            return FnRef(m.group(1))
        return Opaque('const', (c[1],))

    def rvalue(self, fr, rv, f):
        t = rv[0]
        if t == 'use':
            return self.operand(fr, rv[1], f)
        if t == 'ref':
            cell, path = self.place(fr, rv[1])
            if not path and cell.v is UNINIT and not rv[1][1]:
                self._zst(f, rv[1][0], cell)
            return self.mkref(cell, path)
        if t == 'binop':
            return self.binop(rv[1], self.operand(fr, rv[2], f), self.operand(fr, rv[3], f))
        if t == 'unop':
            a = self.operand(fr, rv[2], f)
            op = rv[1]
            if op == 'Not':
                if isinstance(a, BoolV):
                    return BoolV((not a.v) if a.conc() else z3.Not(a.v))
                return IntV(a.w, ~a.v, a.s)
            if op == 'Neg':
                return IntV(a.w, -a.v, a.s)
            if op == 'PtrMetadata':
                if isinstance(a, SliceRef):
                    return IntV(64, a.len)
                raise Unsupported('PtrMetadata of %r' % (a,))
        if t == 'discr':
            cell, path = self.place(fr, rv[1])
            v = self.load(cell, path)
            return self.discriminant(v)
        if t == 'len':
            cell, path = self.place(fr, rv[1])
            lst, start, ln = self.elems_of(self.load(cell, path))
            return IntV(64, ln)
        if t == 'cast':
            return self.cast(fr, rv, f)
        if t == 'agg':
            kind = rv[1]
            return Agg(kind, [self.operand(fr, x, f) for x in rv[3]])
        if t == 'repeat':
            v = self.operand(fr, rv[1], f)
            n = rv[2]
            if isinstance(n, str):
                g = self.subst[-1].get(n)
                if g is None or not re.match(r'^\d+(_usize)?$', g):
                    raise Unsupported('array length %s not bound (subst %r)' % (n, self.subst[-1]))
                n = int(g.split('_')[0])
            return Agg('array', [deep_copy(v) for _ in range(n)])
        if t == 'adt':
            return self.adt(rv[1], [self.operand(fr, x, f) for x in rv[2]])
        raise Unsupported('rvalue ' + str(rv))

    def _zst(self, f, loc, cell):
        """zero-sized locals (capture-less closures, unit structs) are never assigned in MIR: materialise them on first use"""
        ty = f.local_ty.get(loc, '')
        m = re.match(r'^\{(closure@[^}]*)\}$', ty.strip())
        if m:
            cell.v = Agg(m.group(1), [])
        elif ty.strip() == '()':
            cell.v = UNIT
        return cell.v

    def discriminant(self, v):
        if isinstance(v, Agg):
            names = self.enums.get(v.kind)
            if names is None or v.variant is None:
                raise Unsupported('discriminant of %r' % (v,))
            idx = names.index(v.variant)
            if v.kind == 'Ordering':
                idx -= 1
            return IntV(64, idx, True)
        raise Unsupported('discriminant of %r' % (v,))

    def adt(self, path, fields):
        base = _strip_generics(path)
        segs = base.split('::')
        if len(segs) >= 2 and segs[-2] in self.enums and segs[-1] in self.enums[segs[-2]]:
            return Agg(segs[-2], fields, segs[-1])
        if len(segs) == 1 and segs[0] in self.variant_owner and segs[0] not in self.enums:
            owners = self.variant_owner[segs[0]]
            if len(owners) == 1:
                return Agg(owners[0], fields, segs[0])
        return Agg(segs[-1], fields)

    def cast(self, fr, rv, f):
        kind, op, ty, extra = rv[1], rv[2], rv[3], rv[4]
        a = self.operand(fr, op, f)
        if kind == 'IntToInt':
            if ty not in INT_W:
                raise Unsupported('IntToInt to ' + ty)
            w = INT_W[ty]
            sg = ty[0] == 'i'
            if isinstance(a, BoolV):
                if a.conc():
                    return IntV(w, int(a.v), sg)
                return IntV(w, z3.If(a.v, z3.BitVecVal(1, w), z3.BitVecVal(0, w)), sg)
            if isinstance(a, Agg):  # field-less enum as integer
                return IntV(w, self.discriminant(a).v, sg)
            if a.conc():
                return IntV(w, a.sval(), sg)
            if z3.is_int(a.v):
                return IntV(w, a.v, sg)      # integer mode: range obligations are the harness's
            if w > a.w:
                return IntV(w, z3.SignExt(w - a.w, a.v) if a.s else z3.ZeroExt(w - a.w, a.v), sg)
            if w < a.w:
                return IntV(w, z3.Extract(w - 1, 0, a.v), sg)
            return IntV(w, a.v, sg)
        if kind == 'PointerCoercion':
            if 'Unsize' in extra:
                if isinstance(a, Ref):
                    if 'dyn ' in ty:
                        src_ty = None
                        if op[0] in ('copy', 'move') and not op[1][1] and f is not None:
                            src_ty = f.local_ty.get(op[1][0])
                        return Ref(a.cell, a.path, dyn_ty=src_ty)
                    tgt = self.load(a.cell, a.path)
                    if isinstance(tgt, Agg) and tgt.kind in ('array', 'Vec', 'bytes'):
                        return SliceRef(a.cell, a.path, 0, len(tgt.fields))
                    return a
                return a
            if 'ReifyFnPointer' in extra or 'ClosureFnPointer' in extra:
                return a
            return a
        if kind in ('Transmute', 'PtrToPtr', 'FnPtrToPtr'):
            return a
        raise Unsupported('cast ' + kind)

    # ------------------------------------------------------------------ arithmetic
    def binop(self, op, a, b):
        if isinstance(a, BoolV):
            if a.conc() and b.conc():
                return BoolV({'Eq': a.v == b.v, 'Ne': a.v != b.v, 'BitAnd': a.v and b.v, 'BitOr': a.v or b.v,
                              'BitXor': a.v != b.v, 'Lt': a.v < b.v, 'Le': a.v <= b.v, 'Gt': a.v > b.v,
                              'Ge': a.v >= b.v}[op])
            az, bz = a.z(), b.z()
            r = {'Eq': lambda: az == bz, 'Ne': lambda: az != bz, 'BitAnd': lambda: z3.And(az, bz),
                 'BitOr': lambda: z3.Or(az, bz), 'BitXor': lambda: z3.Xor(az, bz)}.get(op)
            if r is None:
                raise Unsupported('bool op ' + op)
            return self._boolv(r())
        if isinstance(a, Agg) and a.variant is not None and not a.fields:
            # field-less enums compared directly (derive(PartialEq) lowers to discriminant compare, but be safe)
            if op == 'Eq':
                return BoolV(a.variant == b.variant)
            if op == 'Ne':
                return BoolV(a.variant != b.variant)
        if not isinstance(a, IntV) or not isinstance(b, IntV):
            raise Unsupported('binop %s on %r, %r' % (op, a, b))
        if (not a.conc() and z3.is_int(a.v)) or (not b.conc() and z3.is_int(b.v)):
            return self.binop_math(op, a, b)
        w = a.w
        sg = a.s
        lo, hi = (-(1 << (w - 1)), (1 << (w - 1)) - 1) if sg else (0, (1 << w) - 1)
        if a.conc() and b.conc():
            x, y = a.sval(), b.sval()
            if op in ('Add', 'AddUnchecked'):
                return IntV(w, x + y, sg)
            if op in ('Sub', 'SubUnchecked'):
                return IntV(w, x - y, sg)
            if op in ('Mul', 'MulUnchecked'):
                return IntV(w, x * y, sg)
            if op == 'AddWithOverflow':
                return Agg('tuple', [IntV(w, x + y, sg), BoolV(not (lo <= x + y <= hi))])
            if op == 'SubWithOverflow':
                return Agg('tuple', [IntV(w, x - y, sg), BoolV(not (lo <= x - y <= hi))])
            if op == 'MulWithOverflow':
                return Agg('tuple', [IntV(w, x * y, sg), BoolV(not (lo <= x * y <= hi))])
            if op in ('Div', 'Rem'):
                if y == 0:
                    self.fail('div-zero', 'division by zero')
                q = abs(x) // abs(y)
                if (x < 0) != (y < 0):
                    q = -q
                return IntV(w, q if op == 'Div' else x - q * y, sg)
            if op == 'BitAnd':
                return IntV(w, a.v & b.v, sg)
            if op == 'BitOr':
                return IntV(w, a.v | b.v, sg)
            if op == 'BitXor':
                return IntV(w, a.v ^ b.v, sg)
            if op in ('Shl', 'ShlUnchecked'):
                return IntV(w, a.v << (b.v % w), sg)
            if op in ('Shr', 'ShrUnchecked'):
                return IntV(w, x >> (b.v % w), sg)
            if op == 'Cmp':
                return Agg('Ordering', [], 'Less' if x < y else ('Equal' if x == y else 'Greater'))
            return BoolV({'Eq': x == y, 'Ne': x != y, 'Lt': x < y, 'Le': x <= y, 'Gt': x > y, 'Ge': x >= y}[op])
        az, bz = a.z(), b.z()
        if b.w != w:
            # shifts may have a narrower/wider rhs
            if b.w < w:
                bz = z3.ZeroExt(w - b.w, bz)
            else:
                bz = z3.Extract(w - 1, 0, bz)
        if op in ('Add', 'AddUnchecked'):
            return IntV(w, az + bz, sg)
        if op in ('Sub', 'SubUnchecked'):
            return IntV(w, az - bz, sg)
        if op in ('Mul', 'MulUnchecked'):
            return IntV(w, az * bz, sg)
        if op == 'BitAnd':
            return IntV(w, az & bz, sg)
        if op == 'BitOr':
            return IntV(w, az | bz, sg)
        if op == 'BitXor':
            return IntV(w, az ^ bz, sg)
        if op in ('Shl', 'ShlUnchecked'):
            return IntV(w, az << (bz & (w - 1)), sg)
        if op in ('Shr', 'ShrUnchecked'):
            return IntV(w, (az >> (bz & (w - 1))) if sg else z3.LShR(az, bz & (w - 1)), sg)
        if op == 'AddWithOverflow':
            ovf = z3.Not(z3.And(z3.BVAddNoOverflow(az, bz, sg), z3.BVAddNoUnderflow(az, bz))) if sg else \
                z3.Not(z3.BVAddNoOverflow(az, bz, False))
            return Agg('tuple', [IntV(w, az + bz, sg), self._boolv(ovf)])
        if op == 'SubWithOverflow':
            ovf = z3.Not(z3.And(z3.BVSubNoOverflow(az, bz), z3.BVSubNoUnderflow(az, bz, True))) if sg else z3.ULT(az, bz)
            return Agg('tuple', [IntV(w, az - bz, sg), self._boolv(ovf)])
        if op == 'MulWithOverflow':
            ovf = z3.Not(z3.And(z3.BVMulNoOverflow(az, bz, sg), z3.BVMulNoUnderflow(az, bz))) if sg else \
                z3.Not(z3.BVMulNoOverflow(az, bz, False))
            return Agg('tuple', [IntV(w, az * bz, sg), self._boolv(ovf)])
        if op in ('Div', 'Rem'):
            self.oblige(BoolV(bz != 0), 'div-zero', 'division by zero')
            if op == 'Div':
                return IntV(w, (az / bz) if sg else z3.UDiv(az, bz), sg)
            return IntV(w, z3.SRem(az, bz) if sg else z3.URem(az, bz), sg)
        if sg:
            cmp = {'Eq': lambda: az == bz, 'Ne': lambda: az != bz, 'Lt': lambda: az < bz, 'Le': lambda: az <= bz,
                   'Gt': lambda: az > bz, 'Ge': lambda: az >= bz}
        else:
            cmp = {'Eq': lambda: az == bz, 'Ne': lambda: az != bz, 'Lt': lambda: z3.ULT(az, bz),
                   'Le': lambda: z3.ULE(az, bz), 'Gt': lambda: z3.UGT(az, bz), 'Ge': lambda: z3.UGE(az, bz)}
        if op in cmp:
            return self._boolv(cmp[op]())
        raise Unsupported('binop ' + op)

    def binop_math(self, op, a, b):
        """integer mode: operands are unbounded z3 Ints constrained to the machine range by the harness; wrap-around is
        an explicit obligation (the *WithOverflow flag), so a proved run covers the machine semantics as well"""
        w, sg = a.w, a.s
        lo, hi = (-(1 << (w - 1)), (1 << (w - 1)) - 1) if sg else (0, (1 << w) - 1)

        def zi(x):
            if x.conc():
                return z3.IntVal(x.sval())
            return x.v if z3.is_int(x.v) else z3.BV2Int(x.v, x.s)
        az, bz = zi(a), zi(b)
        if op in ('Add', 'AddUnchecked', 'Sub', 'SubUnchecked', 'Mul', 'MulUnchecked'):
            r = az + bz if op[0] == 'A' else (az - bz if op[0] == 'S' else az * bz)
            return IntV(w, r, sg)
        if op in ('AddWithOverflow', 'SubWithOverflow', 'MulWithOverflow'):
            r = az + bz if op[0] == 'A' else (az - bz if op[0] == 'S' else az * bz)
            return Agg('tuple', [IntV(w, r, sg), self._boolv(z3.Or(r < lo, r > hi))])
        if op in ('Div', 'Rem'):
            self.oblige(self._boolv(bz != 0), 'div-zero', 'division by zero')
            # non-negative operands (asserted): a = q*b + r, 0 <= r < b with a fresh quotient and remainder
            self.oblige(self._boolv(z3.And(az >= 0, bz > 0)), 'int-mode-sign', 'integer-mode division needs non-negative operands')
            q = z3.Int('q%d' % self.fresh_n)
            r = z3.Int('r%d' % self.fresh_n)
            self.fresh_n += 1
            self.solver.add(az == q * bz + r, r >= 0, r < bz, q >= 0)
            return IntV(w, q if op == 'Div' else r, sg)
        cmp = {'Eq': az == bz, 'Ne': az != bz, 'Lt': az < bz, 'Le': az <= bz, 'Gt': az > bz, 'Ge': az >= bz}
        if op in cmp:
            return self._boolv(cmp[op])
        raise Unsupported('integer-mode binop ' + op)

    @staticmethod
    def _boolv(e):
        s = z3.simplify(e)
        if z3.is_true(s):
            return BoolV(True)
        if z3.is_false(s):
            return BoolV(False)
        return BoolV(s)

    def bnot(self, b):
        return BoolV((not b.v) if b.conc() else z3.Not(b.v))

    # ------------------------------------------------------------------ source lookups (impl headers, generics)
    def _src_lines(self, file):
        if file not in self._src_cache:
            p = file if os.path.isabs(file) else os.path.join(self.src_root, file)
            self._src_cache[file] = open(p).read().split('\n') if os.path.exists(p) else []
        return self._src_cache[file]

    def impl_info(self, f):
        """(self type last segment, trait last segment or None, [type param names of Self], header text)"""
        if f.line is None:
            return (None, None, [], '')
        key = f.line
        if key in self._impl_cache:
            return self._impl_cache[key]
        lines = self._src_lines(key[0])
        line = lines[key[1] - 1] if key[1] - 1 < len(lines) else ''
        info = (None, None, [], line)
        st = line.strip()
        if st.startswith('#['):
            # derive: the impl is for the following struct/enum
            trait = None
            for l2 in lines[key[1] - 1:key[1] + 8]:
                mm = re.match(r'\s*(?:pub(?:\([^)]*\))?\s+)?(?:struct|enum)\s+(\w+)', l2)
                if mm:
                    info = (mm.group(1), 'derive', [], st)
                    break
        else:
            hdr = st
            k = key[1]
            while '{' not in hdr and k < len(lines):
                hdr += ' ' + lines[k].strip()
                k += 1
            hdr = hdr.split('{')[0]
            t = re.sub(r'^(?:unsafe\s+)?impl\b', '', hdr).strip()

            def skip_generics(t):
                t = t.lstrip()
                if t.startswith('<'):
                    d = 0
                    for i, ch in enumerate(t):
                        if ch == '<':
                            d += 1
                        elif ch == '>' and t[i - 1] != '-':
                            d -= 1
                            if d == 0:
                                return t[i + 1:].lstrip()
                return t
            t = skip_generics(t)
            t = re.sub(r'\bwhere\b.*$', '', t).strip()
            parts = re.split(r'\s+for\s+', t, maxsplit=1)
            if len(parts) == 2:
                trait_s, self_s = parts
            else:
                trait_s, self_s = None, parts[0]
            self_s = self_s.strip()
            selfnorm = re.sub(r'^&(?:mut\s+)?', '', self_s)
            mm = re.match(r"([\w:]+)(?:<(.*)>)?$", selfnorm.strip())
            if mm:
                params = [p.strip() for p in mir.split_top(mm.group(2))] if mm.group(2) else []
                params = [p for p in params if not p.startswith("'")]
                info = (mm.group(1).split('::')[-1], mir.type_last(trait_s) if trait_s else None, params, hdr)
            else:
                info = (None, mir.type_last(trait_s) if trait_s else None, [], hdr)
        self._impl_cache[key] = info
        return info

    def fn_type_params(self, f):
        if f.name in self._fnparams_cache:
            return self._fnparams_cache[f.name]
        out = []
        if f.file:
            txt = '\n'.join(self._src_lines(f.file))
            m = re.search(r'fn ' + re.escape(f.last) + r'<([^>(]*)>\s*\(', txt)
            if m:
                for part in m.group(1).split(','):
                    part = part.strip()
                    if part and not part.startswith("'"):
                        out.append(part.split(':')[0].strip())
        self._fnparams_cache[f.name] = out
        return out

    # ------------------------------------------------------------------ call resolution
    def apply_subst(self, callee):
        sub = self.subst[-1]
        if not sub:
            return callee
        key = (callee, id(sub))
        r = self._apply_cache.get(key)
        if r is not None and r[0] is sub:
            return r[1]
        key2 = (callee, tuple(sorted(sub.items())))
        out = self._apply_cache2.get(key2)
        if out is None:
            out = callee
            for k, v in sub.items():
                if k not in out:
                    continue
                pat = self._subst_pats.get(k)
                if pat is None:
                    pat = self._subst_pats[k] = re.compile(r'(?<![\w:])' + re.escape(k) + r'(?![\w])')
                out = pat.sub(lambda m, v=v: v, out)
            self._apply_cache2[key2] = out
        self._apply_cache[key] = (sub, out)
        return out

    def find_model(self, callee):
        for pat, fn in self.overrides:
            if pat.search(callee):
                return fn
        for pat, fn in self.models:
            if pat.search(callee):
                return fn
        return None

    def resolve(self, callee, caller):
        key = (callee, caller.file)
        r = self._resolve_cache.get(key)
        if r is None:
            r = self._resolve(callee, caller)
            self._resolve_cache[key] = r
        return r

    def _resolve(self, callee, caller):
        # rustc prints trimmed paths: `Work::<'_>::run` or `work::Work::<'_>::run` depending on what else is in scope
        short = re.sub(r'^(?:[a-z_][a-z0-9_]*::)+(?=[A-Z])', '', callee)
        for pat, fn in self.overrides:
            if pat.search(callee) or (short != callee and pat.search(short)):
                return ('model', fn)
        c = _strip_generics(callee)
        m = re.match(r'^<(.*) as (.*)>::(\w+)$', c)
        if m and not m.group(1).startswith(('dyn ', '{closure@')):
            # a trait implemented (or derived) in the crate for a crate type wins over a generic std model
            ty0 = mir.type_last(re.sub(r'^&(?:mut )?', '', m.group(1)))
            trait0 = mir.type_last(m.group(2))
            c0 = [f for f in self.by_last.get(m.group(3), []) if self.impl_info(f)[0] == ty0 and
                  self.impl_info(f)[1] in (trait0, 'derive')]
            if len(c0) == 1 and ty0 not in ('Vec', 'String', 'Option', 'Result', 'HashMap', 'HashSet', 'Rc', 'Box'):
                return ('fn', c0[0])
        mdl = self.find_model(callee)
        if mdl is None and short != callee:
            mdl = self.find_model(short)
        if mdl is not None:
            return ('model', mdl)
        if m and m.group(3) in ('call', 'call_mut', 'call_once') and m.group(1).startswith('impl Fn') and \
                re.match(r'^(Fn|FnMut|FnOnce)\b', mir.type_last(m.group(2))):
            return ('closure', None)     # anonymous `impl Fn..` parameter: the value itself is the closure
        if m:
            tyfull = m.group(1)
            if tyfull.startswith('dyn '):
                return ('dyn', m.group(3))
            if tyfull.startswith('{closure@'):
                clo = self.closures.get(re.match(r'^(\{closure@[^}]*\})', tyfull).group(1))
                if clo is not None:
                    return ('closure', clo)
            ty = re.sub(r'^&(?:mut )?', '', tyfull)
            ty = mir.type_last(ty)
            trait = mir.type_last(m.group(2))
            cands = [f for f in self.by_last.get(m.group(3), []) if self.impl_info(f)[0] == ty]
            if len(cands) > 1:
                c2 = [f for f in cands if self.impl_info(f)[1] in (trait, 'derive')]
                if c2:
                    cands = c2
            if len(cands) > 1:
                # several impls of one trait for differently-instantiated generic types: match the header text
                want = _norm_ty(tyfull)
                c2 = [f for f in cands if _norm_ty(re.split(r'\s+for\s+', self.impl_info(f)[3])[-1]) .endswith(want)]
                if len(c2) == 1:
                    cands = c2
            if len(cands) == 1:
                return ('fn', cands[0])
            raise Unsupported('unresolved trait call %s %s' % (callee, [f.name for f in cands]))
        segs = c.split('::')
        name = segs[-1]
        cands = self.by_last.get(name, [])
        if len(segs) >= 2:
            ty = segs[-2]
            c2 = [f for f in cands if self.impl_info(f)[0] == ty and self.impl_info(f)[1] is None]
            if not c2:
                c2 = [f for f in cands if self.impl_info(f)[0] == ty]
            if not c2:
                c2 = [f for f in cands if f.line is None and (f.name == c or f.name.endswith('::' + c) or
                                                              f.name.split('::')[-2:-1] == [ty])]
            if len(c2) > 1:
                # inherent impls for different instantiations of one generic type: impl EvalString<String> / impl EvalString<&str>
                mm = re.match(r'^(.*)::(\w+)(?:::<.*>)?$', re.sub(r"::<'_>", '', callee), re.S)
                if mm:
                    want = _norm_ty(mm.group(1).replace('::<', '<'))
                    c3 = [f for f in c2 if _norm_ty(re.sub(r'^.*?impl(<[^>]*>)?\s*', '', self.impl_info(f)[3]).strip()) == want]
                    if len(c3) == 1:
                        c2 = c3
            if len(c2) == 1:
                return ('fn', c2[0])
            if len(c2) > 1:
                raise Unsupported('ambiguous %s: %s' % (callee, [f.name for f in c2]))
            # module-qualified free fn: mod::name
            c2 = [f for f in cands if f.line is None and f.file and os.path.basename(f.file) == ty + '.rs']
            if len(c2) == 1:
                return ('fn', c2[0])
        c2 = [f for f in cands if f.line is None and '{closure' not in f.name]
        same = [f for f in c2 if f.file == caller.file]
        if len(same) == 1:
            return ('fn', same[0])
        if len(c2) == 1:
            return ('fn', c2[0])
        raise Unsupported('unresolved call %s (candidates %s)' % (callee, [f.name for f in cands]))

    # ------------------------------------------------------------------ execution
    def call_fn(self, f, args, callee=None):
        self.depth += 1
        if self.depth > 200:
            # a bound of the engine, reported as a candidate finding (unbounded recursion overflows the real stack);
            # like every failure it counts only if the native replay confirms it, otherwise the run is inconclusive
            self.depth -= 1
            import collections
            top = collections.Counter(g.last for g in self.curfn).most_common(3)
            self.fail('call-depth', 'call depth bound 200 exceeded entering %s; most active: %s (unbounded recursion?)' % (
                f.last, ', '.join('%s x%d' % t for t in top)))
        self.curfn.append(f)
        self.fn_used.add(f.name)
        h = self.hooks.get('enter:' + f.last) or self.hooks.get('enterfn:' + f.name)
        if h is not None:
            h(self, args)
        try:
            return self._run(f, args)
        finally:
            self.curfn.pop()
            self.depth -= 1

    def _subst_additions(self, target, callee):
        key = (callee, target.name)
        r = self._subst_cache.get(key)
        if r is not None:
            return r
        new = {}
        groups = _generic_groups(callee)
        if groups:
            ity, itrait, iparams, _ = self.impl_info(target)
            fparams = self.fn_type_params(target)
            if len(groups) == 1:
                pos, ga = groups[0]
                tail = callee[pos:]
                # a trailing group belongs to the fn, a group before the method name to the type
                if re.match(r'^::<.*>$', tail, re.S) and not callee.startswith('<'):
                    for pn, g in zip(fparams, ga):
                        new[pn] = g
                    if not fparams:
                        for pn, g in zip(iparams, ga):
                            if re.match(r'^\w+$', pn):
                                new[pn] = g
                elif re.match(r'^::<.*>$', tail, re.S):
                    for pn, g in zip(fparams, ga):
                        new[pn] = g
                else:
                    for pn, g in zip(iparams, ga):
                        if re.match(r'^\w+$', pn):
                            new[pn] = g
            else:
                for pn, g in zip(iparams, groups[0][1]):
                    if re.match(r'^\w+$', pn):
                        new[pn] = g
                for pn, g in zip(fparams, groups[-1][1]):
                    new[pn] = g
        m = re.match(r'^<(.*) as ', callee)
        if m and target.line is not None:
            # <SmallMap<&str, X> as Trait>::f : bind the impl's Self type params
            ity, itrait, iparams, _ = self.impl_info(target)
            mm = re.match(r'^&?(?:mut )?[\w:]+<(.*)>$', m.group(1).strip(), re.S)
            if mm and iparams:
                ga = [a for a in mir.split_top(mm.group(1)) if not a.startswith("'")]
                for pn, g in zip(iparams, ga):
                    if re.match(r'^\w+$', pn):
                        new[pn] = g
        self._subst_cache[key] = new
        return new

    def call_with_subst(self, target, args, callee):
        add = self._subst_additions(target, callee)
        if add:
            new = dict(self.subst[-1])
            new.update(add)
        else:
            new = self.subst[-1]
        self.subst.append(new)
        try:
            return self.call_fn(target, args, callee)
        finally:
            self.subst.pop()

    def invoke(self, callee, args, caller, dest_ty=None):
        """call by (textual) callee path"""
        callee = self.apply_subst(callee)
        kind, target = self.resolve(callee, caller)
        self.stats['calls'] += 1
        if kind == 'model':
            self.model_used.add(target.__name__)
            self.cur_dest_ty = dest_ty
            return target(self, args, callee)
        if kind == 'fn':
            return self.call_with_subst(target, args, callee)
        if kind == 'closure':
            return self.call_closure_fn(target, args)
        if kind == 'dyn':
            return self.dyn_call(target, args, callee, caller)
        raise Unsupported('resolve kind ' + kind)

    def call_closure_fn(self, target, args):
        """<closure as Fn*>::call*(closure_or_ref, (args,))"""
        clo = args[0]
        tup = args[1]
        rest = list(tup.fields) if isinstance(tup, Agg) and tup.kind in ('tuple', '()') else [tup]
        return self.call_closure(clo, rest)

    def call_closure(self, clo, args):
        """call a closure value (Agg kind 'closure@span', or a reference to one, or an FnRef)"""
        c = clo
        cv = c if isinstance(c, FnRef) else self.deref(c)
        if isinstance(cv, FnRef):
            last = _strip_generics(cv.name).split('::')[-1]
            if last[:1].isupper():
                return self.adt(cv.name, list(args))     # tuple-struct / variant constructor as a function
            return self.invoke(cv.name, list(args), self.curfn[-1])
        if not (isinstance(cv, Agg) and cv.kind.startswith('closure@')):
            raise Unsupported('call of non-closure %r' % (cv,))
        f = self.closures.get('{' + cv.kind + '}')
        if f is None:
            raise Unsupported('closure body not found: ' + cv.kind)
        first = f.arg_tys[0]
        if first.startswith('&'):
            a0 = c if isinstance(c, Ref) else Ref(Cell(cv), ())
        else:
            a0 = cv
        return self.call_fn(f, [a0] + list(args))

    def dyn_call(self, method, args, callee, caller):
        recv = args[0]
        dyn_ty = getattr(recv, 'dyn_ty', None)
        tgt = self.deref(recv)
        cands = self.by_last.get(method, [])
        kind = tgt.kind if isinstance(tgt, Agg) else None
        h = self.hooks.get('dyn:' + method)
        if h is not None:
            r = h(self, args, callee)
            if r is not NotImplemented:
                return r
        c2 = [f for f in cands if self.impl_info(f)[0] == kind and self.impl_info(f)[1] not in (None,)]
        if len(c2) > 1 and dyn_ty:
            want = _norm_ty(re.sub(r'^&(?:mut )?', '', dyn_ty))
            c3 = [f for f in c2 if _norm_ty(re.split(r'\s+for\s+', self.impl_info(f)[3])[-1]) == want]
            if not c3:
                # generic impl: compare with type params abstracted
                for f in c2:
                    hdr = _norm_ty(re.split(r'\s+for\s+', self.impl_info(f)[3])[-1])
                    pat = re.escape(hdr)
                    for p in re.findall(r'impl<([^>]*)>', self.impl_info(f)[3]):
                        for pn in p.split(','):
                            pn = pn.split(':')[0].strip()
                            if pn and not pn.startswith("'"):
                                pat = re.sub(r'(?<![\w])' + re.escape(pn) + r'(?![\w])', r'.+', pat)
                    if re.match('^' + pat + '$', want):
                        c3.append(f)
            if len(c3) == 1:
                c2 = c3
        if len(c2) == 1:
            return self.call_with_subst(c2[0], args, '<%s as X>::%s' % (re.sub(r'^&(?:mut )?', '', dyn_ty or kind or '?'), method))
        raise Unsupported('dyn call %s on %r (dyn_ty %s): %s' % (callee, kind, dyn_ty, [f.name for f in c2]))

    def _parsed_blocks(self, f):
        b0 = f.blocks.get(0)
        if b0 is not None and b0 and isinstance(b0[0], str):
            for k, lst in f.blocks.items():
                stmts = [parse_stmt_safe(s) for s in lst[:-1]]
                _fix_closure_captures(stmts)
                f.blocks[k] = (stmts, parse_term_safe(lst[-1]))
        return f.blocks

    def _run(self, f, args):
        blocks = self._parsed_blocks(f)
        fr = _Frame()
        if len(args) != f.nargs:
            raise Unsupported('arity mismatch calling %s: %d args for %d params' % (f.name, len(args), f.nargs))
        for i, a in enumerate(args):
            fr[i + 1] = Cell(a)
        bbn = 0
        while True:
            stmts, term = blocks[bbn]
            for st in stmts:
                t = st[0]
                if t == 'assign':
                    val = self.rvalue(fr, st[2], f)
                    cell, path = self.place(fr, st[1])
                    self.store(cell, path, val)
                elif t == 'nop':
                    pass
                elif t == 'assume':
                    self.assume(self.operand(fr, st[1], f))
                elif t == 'unsupported':
                    raise Unsupported(st[1] + ' in ' + f.name)
                else:
                    raise Unsupported('stmt ' + t)
            self.steps += 1
            if self.steps > self.step_bound:
                self.fail('step-bound', 'step bound %d hit in %s' % (self.step_bound, f.name))
            nxt = self.terminator(fr, f, term)
            if nxt is None:
                return fr[0].v
            bbn = nxt

    def terminator(self, fr, f, tm):
        t = tm[0]
        if t == 'goto':
            return tm[1]
        if t == 'return':
            return None
        if t == 'switch':
            v = self.operand(fr, tm[1], f)
            arms, other = tm[2], tm[3]
            if isinstance(v, BoolV):
                b = self.branch_bool(v)
                for k, tgt in arms:
                    if k == int(b):
                        return tgt
                return other
            if v.conc():
                val = v.v
                for k, tgt in arms:
                    if (k & ((1 << v.w) - 1)) == val:
                        return tgt
                return other
            mk = (lambda k: z3.IntVal(k)) if z3.is_int(v.v) else (lambda k: z3.BitVecVal(k, v.w))
            alts = [(('arm', k, tgt), v.v == mk(k)) for k, tgt in arms]
            if other is not None:
                alts.append((('other', other), z3.And([v.v != mk(k) for k, _ in arms])))
            lab = self.decide(alts, exhaustive=other is not None)
            return lab[-1]
        if t == 'call':
            dest, callee, argops, ret = tm[1], tm[2], tm[3], tm[4]
            args = [self.operand(fr, a, f) for a in argops]
            dest_ty = f.local_ty.get(dest[0]) if dest is not None and not dest[1] else None
            val = self.invoke(callee, args, f, dest_ty)
            if ret is None:
                raise Unsupported('diverging call returned: ' + callee)
            if dest is not None:
                cell, path = self.place(fr, dest)
                self.store(cell, path, val)
            return ret
        if t == 'callptr':
            dest, fop, argops, ret = tm[1], tm[2], tm[3], tm[4]
            fv = self.operand(fr, fop, f)
            args = [self.operand(fr, a, f) for a in argops]
            val = self.call_closure(fv, args)
            if dest is not None:
                cell, path = self.place(fr, dest)
                self.store(cell, path, val)
            return ret
        if t == 'assert':
            c = self.operand(fr, tm[2], f)
            if tm[1]:
                c = self.bnot(c)
            msg = tm[3]
            key = 'assert:' + re.sub(r'[^A-Za-z]+', '-', msg)[:40].strip('-') + '@' + f.last
            self.oblige(c, key, 'MIR assert %s in %s' % (msg, f.name))
            return tm[4]
        if t == 'drop':
            h = self.hooks.get('drop')
            if h is not None:
                cell, path = self.place(fr, tm[1])
                h(self, self.load(cell, path))
            return tm[2]
        if t == 'unreachable':
            self.fail('unreachable@' + f.last, 'MIR unreachable reached in ' + f.name)
        if t == 'unsupported':
            raise Unsupported(tm[1] + ' in ' + f.name)
        raise Unsupported('terminator ' + str(tm))


def _fix_closure_captures(stmts):
    """rustc's MIR printer names closure captures by root variable and zips the names with the operands, so with
    disjoint field captures (`loader.graph`, `loader.builddir`, `hashes`) the LAST operands are not printed.  They are the
    temporaries assigned between the last printed capture and the closure aggregate: recover them."""
    for i, st in enumerate(stmts):
        if st[0] != 'assign' or st[2][0] != 'agg' or not str(st[2][1]).startswith('closure@'):
            continue
        ops = list(st[2][3])
        listed = [op[1][0] for op in ops if op[0] in ('move', 'copy') and not op[1][1]]
        if not listed:
            continue
        last = max(listed)
        # position of the statement assigning the last listed capture
        j = i - 1
        while j >= 0 and not (stmts[j][0] == 'assign' and stmts[j][1] == (last, ())):
            j -= 1
        if j < 0:
            continue
        extra = []
        for st2 in stmts[j + 1:i]:
            if st2[0] == 'assign' and not st2[1][1] and st2[2][0] in ('ref', 'use') and st2[1][0] > last:
                extra.append(('move', (st2[1][0], ())))
        if extra:
            stmts[i] = ('assign', st[1], ('agg', st[2][1], st[2][2], tuple(ops + extra), st[2][4]))


def parse_stmt_safe(s):
    try:
        return parse_stmt(s)
    except Unsupported as e:
        return ('unsupported', str(e))


def parse_term_safe(s):
    try:
        return parse_term(s)
    except Unsupported as e:
        return ('unsupported', str(e))
