"""Layout-aware constructors for n2's data structures (harness pre-states).

MIR addresses struct fields by index; the index of every field is read from the struct declarations of the tree under
test (so a harness never silently builds a value with a stale layout)."""
import glob
import os
import re

from .values import (Agg, BoolV, Cell, IntV, Opaque, Ref, SliceRef, none, some, vec, string, usize, Unsupported)


class Layout:
    def __init__(self, root):
        self.structs = {}
        for p in sorted(glob.glob(os.path.join(root, 'src', '*.rs'))):
            txt = open(p).read()
            txt = re.sub(r'//[^\n]*', '', txt)
            for m in re.finditer(r'\bstruct (\w+)(?:<[^>{;(]*>)?\s*(?:where[^{]*)?\{(.*?)\n\}', txt, re.S):
                body = m.group(2)
                fields = []
                depth = 0
                cur = ''
                for ch in body:
                    if ch in '<([{':
                        depth += 1
                    elif ch in '>)]}':
                        depth -= 1
                    if ch == ',' and depth == 0:
                        fields.append(cur)
                        cur = ''
                    else:
                        cur += ch
                fields.append(cur)
                names = []
                for f in fields:
                    f = re.sub(r'#\[[^\]]*\]', '', f).strip()
                    mm = re.match(r'^(?:pub(?:\([^)]*\))?\s+)?(\w+)\s*:', f)
                    if mm:
                        names.append(mm.group(1))
                if names:
                    self.structs.setdefault(m.group(1), []).append(names)

    def decl(self, kind, fields=None):
        decls = self.structs.get(kind)
        if not decls:
            raise Unsupported('no struct declaration found for ' + kind)
        if fields is not None:
            for names in decls:
                if set(names) == set(fields):
                    return names
            raise Unsupported('struct %s layout changed: harness supplies %s, declarations have %s' % (kind, sorted(fields), decls))
        return decls[0]

    def mk(self, kind, **kw):
        names = self.decl(kind, kw.keys())
        return Agg(kind, [kw[n] for n in names])

    def idx(self, kind, field):
        for names in self.structs.get(kind, []):
            if field in names:
                return names.index(field)
        raise Unsupported('no field %s.%s' % (kind, field))

    def get(self, v, field):
        return v.fields[self.idx(v.kind, field)]

    def set(self, v, field, val):
        v.fields[self.idx(v.kind, field)] = val


def fileid(i):
    return Agg('FileId', [IntV(32, i)])


def buildid(i):
    return Agg('BuildId', [IntV(32, i)])


def densemap(items):
    return Agg('DenseMap', [vec(items), Agg('PhantomData', [])])


def dm_items(dm):
    return dm.fields[0].fields


def hashmap(pairs=()):
    return Agg('HashMap', [Agg('tuple', [k, v]) for k, v in pairs])


class World:
    """a build graph under construction (files by name, builds with role-split inputs)"""

    def __init__(self, L):
        self.L = L
        self.files = []      # File aggs
        self.names = []      # python bytes / None for symbolic
        self.builds = []
        self.by_name = []

    def file(self, name):
        """FileId index for a (concrete or symbolic-bytes) name; names are assumed canonical and distinct per call"""
        if isinstance(name, (bytes, str)):
            nb = name.encode() if isinstance(name, str) else name
            for i, n in enumerate(self.names):
                if n == nb:
                    return i
            s = string(nb)
        else:
            nb = None
            s = name
        self.files.append(self.L.mk('File', name=s, input=none(), dependents=vec()))
        self.names.append(nb)
        self.by_name.append((s, len(self.files) - 1))
        return len(self.files) - 1

    def add_build(self, outs, explicit=(), implicit=(), order_only=(), validation=(), cmdline=b'cmd', pool=None,
                  discovered=(), explicit_outs=None, rspfile=None, depfile=None, desc=None, line=1, showincludes=False):
        L = self.L
        b = len(self.builds)
        ins = list(explicit) + list(implicit) + list(order_only) + list(validation)
        for f in ins:
            self.files[f].fields[L.idx('File', 'dependents')].fields.append(buildid(b))
        for o in outs:
            L.set(self.files[o], 'input', some(buildid(b)))
        loc = L.mk('FileLoc', filename=Agg('Rc', [Cell(Agg('PathBuf', [string(b'build.ninja')]))]), line=usize(line))
        build = L.mk(
            'Build', location=loc, desc=none() if desc is None else some(string(desc)),
            cmdline=none() if cmdline is None else some(cmdline if isinstance(cmdline, Agg) else string(cmdline)),
            depfile=none() if depfile is None else some(string(depfile)), parse_showincludes=BoolV(showincludes),
            rspfile=none() if rspfile is None else some(rspfile),
            pool=none() if pool is None else some(string(pool)),
            ins=L.mk('BuildIns', ids=vec(fileid(f) for f in ins), explicit=usize(len(explicit)),
                     implicit=usize(len(implicit)), order_only=usize(len(order_only))),
            discovered_ins=vec(fileid(f) for f in discovered),
            outs=L.mk('BuildOuts', ids=vec(fileid(o) for o in outs),
                      explicit=usize(len(outs) if explicit_outs is None else explicit_outs)),
            hide_success=BoolV(False), hide_progress=BoolV(False))
        self.builds.append(build)
        return b

    def graph(self):
        L = self.L
        files = L.mk('GraphFiles', by_id=densemap(self.files),
                     by_name=hashmap((s, fileid(i)) for s, i in self.by_name))
        return L.mk('Graph', builds=densemap(self.builds), files=files)
