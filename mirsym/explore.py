"""Parallel path exploration: the path tree is split by decision prefix across worker processes (fork).
Every path is re-executed from its start following a recorded prefix of solver-decided choices, then extended
depth-first; the alternatives the solver found feasible on the way are queued as new prefixes."""
import collections
import multiprocessing as mp
import os
import time
import traceback

from .values import PathEnd, Unsupported

_I = None
_H = None


class PathResult:
    __slots__ = ('end', 'failures', 'summary', 'ndec')

    def __init__(self, end, failures, summary, ndec):
        self.end, self.failures, self.summary, self.ndec = end, failures, summary, ndec


def run_one(I, H, prefix):
    I.start_path(prefix)
    summary = None
    try:
        summary = H.run_path(I)
        end = 'done'
    except PathEnd as e:
        end = 'end:' + str(e).split(':')[0]
        if hasattr(H, 'on_path_end'):
            summary = H.on_path_end(I, str(e))
    fails = [(f.key, f.desc, f.model, f.extra) for f in I.failures]
    return PathResult(end, fails, summary, len(I.decisions)), list(I.pending)


_TRAMP = None


def trampoline():
    """CPython 3.11 keeps interpreter frames on a chunked data stack and mmaps / munmaps a 16 KiB chunk every time the
    recursion depth crosses a chunk boundary; the MIR interpreter recurses deeply and oscillates across boundaries, which
    cost half of the run time in the kernel and destroyed multi-process scaling.  Running the worker below a frame with
    70 000 (unused) locals makes CPython allocate one 1 MiB chunk whose free half then holds all nested frames."""
    global _TRAMP
    if _TRAMP is None:
        import marshal
        import sys
        import tempfile
        cache = os.path.join(tempfile.gettempdir(), 'mirsym-tramp-%d.%d.%d.marshal' % sys.version_info[:3])
        code = None
        try:
            with open(cache, 'rb') as fh:
                code = marshal.loads(fh.read())
        except Exception:
            code = None
        if code is None:
            # compiling 70 000 assignments takes ~3 s: the code object is cached (and rebuilt whenever absent)
            src = 'def _tramp(fn, _never=False):\n    if _never:\n' + ''.join('        x%d = 0\n' % i for i in range(70000)) + '    return fn()\n'
            code = compile(src, '<mirsym-trampoline>', 'exec')
            try:
                tmpf = cache + '.%d' % os.getpid()
                with open(tmpf, 'wb') as fh:
                    fh.write(marshal.dumps(code))
                os.replace(tmpf, cache)
            except Exception:
                pass
        ns = {}
        exec(code, ns)
        _TRAMP = ns['_tramp']
    return _TRAMP


def _worker(task):
    if os.environ.get('MIRSYM_NO_TRAMPOLINE'):
        return _worker_inner(task)
    return trampoline()(lambda: _worker_inner(task))


def _worker_inner(task):
    prefix, slice_s, max_paths = task
    I, H = _I, _H
    t0 = time.time()
    q0 = I.stats['queries']
    c0 = I.stats['calls']
    o0 = I.stats['obligations']
    st0 = I.solver_time
    stack = [prefix]
    results = []
    try:
        while stack and len(results) < max_paths and time.time() - t0 < slice_s:
            p = stack.pop()
            r, pend = run_one(I, H, p)
            results.append((r.end, r.failures, r.summary, r.ndec))
            stack.extend(pend)
    except Unsupported as e:
        return {'unsupported': str(e), 'trace': traceback.format_exc()[-1500:], 'results': results, 'left': stack,
                'stats': {}, 'fns': [], 'models': []}
    except Exception:  # noqa
        return {'unsupported': 'engine error: ' + traceback.format_exc()[-3000:], 'results': results, 'left': stack,
                'stats': {}, 'fns': [], 'models': []}
    return {'results': results, 'left': stack,
            'stats': {'queries': I.stats['queries'] - q0, 'solver_s': I.solver_time - st0,
                      'calls': I.stats['calls'] - c0, 'obligations': I.stats['obligations'] - o0},
            'fns': sorted(I.fn_used), 'models': sorted(I.model_used)}


class Exploration:
    def __init__(self):
        self.paths = 0
        self.ends = collections.Counter()
        self.failures = {}          # key -> [(desc, model, extra)]
        self.nfail = collections.Counter()
        self.summaries = []         # bounded sample
        self.all_summaries = None   # optional full list (harness asks)
        self.queries = 0
        self.solver_s = 0.0
        self.obligations = 0
        self.calls = 0
        self.fns = set()
        self.models = set()
        self.unsupported = None
        self.incomplete = None
        self.left = 0
        self.wall = 0.0
        self.max_decisions = 0

    def to_cov(self):
        return {'paths': self.paths, 'path_ends': dict(self.ends), 'solver_queries': self.queries,
                'solver_s': round(self.solver_s, 2), 'obligations_checked': self.obligations,
                'mir_calls': self.calls, 'max_decisions_on_a_path': self.max_decisions,
                'wall_s': round(self.wall, 1)}


def explore(I, H, jobs=16, max_paths=2000000, time_budget=3600, keep_summaries=40, keep_all=False,
            slice_s=3.0, per_key=5, on_result=None, warm_s=1.5):
    """explores all paths of harness H.  Returns an Exploration."""
    global _I, _H
    _I, _H = I, H
    trampoline()
    ex = Exploration()
    if keep_all:
        ex.all_summaries = []
    t0 = time.time()
    queue = collections.deque([[]])
    pool = None
    # the first paths run in this process: small families finish without a pool, and for large ones the lazily built
    # caches (parsed bodies, resolutions, models) are warm before the workers are forked and inherit them
    warm_until = t0 + (warm_s if jobs > 1 else float('inf'))
    pending = []
    stats_seen = {}
    progress = os.environ.get('MIRSYM_PROGRESS')
    last_report = t0
    try:
        while queue or pending:
            if progress and time.time() - last_report > 60:
                last_report = time.time()
                import sys
                print('[mirsym %s] %.0fs paths=%d frontier=%d failures=%d' % (type(H).__name__, last_report - t0, ex.paths, len(queue) + len(pending),
                                                                            sum(ex.nfail.values())), file=sys.stderr, flush=True)
            if time.time() - t0 > time_budget or ex.paths >= max_paths:
                ex.incomplete = 'budget exhausted (%.0fs, %d paths) with %d prefixes left' % (
                    time.time() - t0, ex.paths, len(queue) + len(pending))
                break
            if ex.unsupported:
                break
            if pool is None and time.time() > warm_until and len(queue) > 1:
                pool = mp.get_context('fork').Pool(jobs)
            if pool is None:
                res = _worker((queue.popleft(), min(slice_s, 0.5) if jobs > 1 else slice_s, 1000))
                done = [res]
            else:
                while queue and len(pending) < jobs * 2:
                    # small slices while the frontier is small so that work spreads quickly
                    sl = 0.3 if len(queue) + len(pending) < jobs * 2 else slice_s
                    pending.append(pool.apply_async(_worker, ((queue.popleft(), sl, 5000),)))
                done = []
                still = []
                for a in pending:
                    if a.ready():
                        done.append(a.get())
                    else:
                        still.append(a)
                pending = still
                if not done:
                    time.sleep(0.005)
                    continue
            for res in done:
                if res.get('unsupported'):
                    u = res['unsupported']
                    ex.unsupported = u if len(u) < 900 else u[:350] + ' ... ' + u[-450:]
                for (end, fails, summary, ndec) in res['results']:
                    ex.paths += 1
                    ex.ends[end] += 1
                    ex.max_decisions = max(ex.max_decisions, ndec)
                    for key, desc, model, extra in fails:
                        ex.nfail[key] += 1
                        lst = ex.failures.setdefault(key, [])
                        if len(lst) < per_key:
                            lst.append((desc, model, extra))
                    if summary is not None:
                        if len(ex.summaries) < keep_summaries:
                            ex.summaries.append(summary)
                        if keep_all:
                            ex.all_summaries.append(summary)
                        if on_result is not None:
                            on_result(summary)
                queue.extend(res['left'])
                st = res['stats']
                ex.queries += st.get('queries', 0)
                ex.solver_s += st.get('solver_s', 0.0)
                ex.fns.update(res['fns'])
                ex.models.update(res['models'])
                ex.calls += st.get('calls', 0)
                ex.obligations += st.get('obligations', 0)
    finally:
        if pool is not None:
            pool.terminate()
            pool.join()
    ex.left = len(queue) + len(pending)
    ex.wall = time.time() - t0
    return ex
