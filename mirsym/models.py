"""Hand-written models of the std / anyhow / hashbrown functions that n2's MIR calls.  Each model implements the
documented contract of the function on mirsym values; the list of models a run used is reported in the evidence as
trusted base.  A call with no model and no MIR body makes the run INCONCLUSIVE."""
import re

import z3

from .values import (Agg, BoolV, Cell, FnRef, IntV, Opaque, PathEnd, Ref, SliceRef, UNIT, Unsupported, deep_copy,
                     none, some, ok, err, vec, string, string_of, str_of_string, static_str, usize)


# ------------------------------------------------------------------------------------------------ helpers
def elems(I, sl):
    lst, start, ln = I.elems_of(sl)
    return lst[start:start + ln]


def as_slice(I, x):
    """&[T]/&str view of: SliceRef | &Vec | &String | &array | Vec | String"""
    if isinstance(x, SliceRef):
        return x
    if isinstance(x, Ref):
        v = I.load(x.cell, x.path)
        if isinstance(v, SliceRef):
            return v
        if isinstance(v, Ref):
            return as_slice(I, v)
        if isinstance(v, Agg):
            if v.kind == 'String':
                inner = v.fields[0]
                return SliceRef(Cell(inner), (), 0, len(inner.fields))
            if v.kind in ('PathBuf',):
                return as_slice(I, Ref(Cell(v.fields[0]), ()))
            if v.kind == 'Cow':
                return as_slice(I, v.fields[0] if isinstance(v.fields[0], (SliceRef, Ref)) else Ref(Cell(v.fields[0]), ()))
            return SliceRef(x.cell, x.path, 0, len(v.fields))
    if isinstance(x, Agg):
        if x.kind == 'String':
            inner = x.fields[0]
            return SliceRef(Cell(inner), (), 0, len(inner.fields))
        if x.kind == 'Cow':
            return as_slice(I, x.fields[0])
        if x.kind == 'PathBuf':
            return as_slice(I, x.fields[0])
        return SliceRef(Cell(x), (), 0, len(x.fields))
    raise Unsupported('as_slice of %r' % (x,))


def conc_bytes(I, sl):
    """bytes of a slice whose elements are all concrete, else None"""
    out = bytearray()
    for b in elems(I, sl):
        if not b.conc():
            return None
        out.append(b.v)
    return bytes(out)


def seq_eq(I, a, b):
    """equality of two byte/int sequences as a BoolV"""
    if a.len != b.len:
        return BoolV(False)
    conj = []
    for x, y in zip(elems(I, a), elems(I, b)):
        r = val_eq(I, x, y)
        if r.conc():
            if not r.v:
                return BoolV(False)
        else:
            conj.append(r.v)
    if not conj:
        return BoolV(True)
    return I._boolv(z3.And(conj))


def val_eq(I, a, b):
    """structural equality (derive(PartialEq) semantics) of two mirsym values"""
    a = I.deref(a) if isinstance(a, Ref) else a
    b = I.deref(b) if isinstance(b, Ref) else b
    if isinstance(a, IntV) and isinstance(b, IntV):
        return I.binop('Eq', a, b)
    if isinstance(a, BoolV):
        return I.binop('Eq', a, b)
    if isinstance(a, SliceRef) or isinstance(b, SliceRef):
        return seq_eq(I, as_slice(I, a), as_slice(I, b))
    if isinstance(a, Agg) and isinstance(b, Agg):
        if a.kind in ('String', 'Vec', 'array', 'bytes') or b.kind in ('String', 'Vec', 'array', 'bytes'):
            return seq_eq(I, as_slice(I, a), as_slice(I, b))
        if a.variant != b.variant:
            return BoolV(False)
        if len(a.fields) != len(b.fields):
            return BoolV(False)
        conj = []
        for x, y in zip(a.fields, b.fields):
            r = val_eq(I, x, y)
            if r.conc():
                if not r.v:
                    return BoolV(False)
            else:
                conj.append(r.v)
        return BoolV(True) if not conj else I._boolv(z3.And(conj))
    if isinstance(a, Opaque) and isinstance(b, Opaque):
        return BoolV(a.tag == b.tag and repr(a.parts) == repr(b.parts))
    raise Unsupported('val_eq on %r / %r' % (a, b))


def char_of_byte(b):
    return IntV(32, b.v) if b.conc() else IntV(32, z3.ZeroExt(24, b.v))


def closure_call(I, clo, args):
    return I.call_closure(clo, args)


def truthy(I, b):
    return I.branch_bool(b)


def new_iter(items):
    """generic by-value iterator over a Python list of items"""
    return Agg('PyIter', [Agg('items', list(items)), IntV(64, 0)])


def iter_items(I, it):
    """remaining items of any of our iterator representations"""
    it = I.deref(it) if isinstance(it, Ref) else it
    if it.kind == 'PyIter':
        return it.fields[0].fields[it.fields[1].v:]
    if it.kind == 'Range':
        a, b = it.fields
        if not (a.conc() and b.conc()):
            raise Unsupported('iteration over a symbolic range')
        return [IntV(a.w, k, a.s) for k in range(a.v, max(a.v, b.v))]
    if it.kind == 'SliceIter':
        sl, pos = it.fields
        lst, start, ln = I.elems_of(sl)
        base_cell = Cell(Agg('view', lst))
        return [Ref(base_cell, (('f', start + i),)) for i in range(pos.v, ln)]
    if it.kind in ('Vec', 'array'):
        return list(it.fields)       # an IntoIterator value used where an iterator is expected (flat_map closures)
    raise Unsupported('iter_items of ' + it.kind)


# ------------------------------------------------------------------------------------------------ generic
def m_identity(I, args, callee):
    return args[0]


def m_unit(I, args, callee):
    return UNIT


def m_false(I, args, callee):
    return BoolV(False)


def m_true(I, args, callee):
    return BoolV(True)


def m_ok_unit(I, args, callee):
    return ok(UNIT)


def m_opaque(tag):
    def f(I, args, callee):
        return Opaque(tag, tuple(args))
    f.__name__ = 'm_opaque_' + tag
    return f


def m_panic(I, args, callee):
    msg = ''
    if args:
        try:
            bs = render_args(I, args[0])
            msg = bytes(b.v if b.conc() else 63 for b in bs).decode('utf-8', 'replace')
        except Exception:
            msg = describe(I, args[0])
    I.fail('panic@' + (I.curfn[-1].last if I.curfn else '?'), 'panic reached in %s: %s' % (I.curfn[-1].name if I.curfn else '?', msg[:200]))


def m_panic_str(I, args, callee):
    I.fail('panic@' + (I.curfn[-1].last if I.curfn else '?'), 'panic reached in %s (%s)' % (I.curfn[-1].name if I.curfn else '?', callee))


def describe(I, v, depth=0):
    """best-effort rendering of message parts (for error texts / diagnostics)"""
    if depth > 6:
        return '...'
    if isinstance(v, Ref):
        try:
            return describe(I, I.load(v.cell, v.path), depth + 1)
        except Exception:
            return '&?'
    if isinstance(v, SliceRef):
        bs = conc_bytes(I, v) if all(isinstance(e, IntV) and e.w == 8 for e in elems(I, v)) else None
        if bs is not None:
            return bs.decode('utf-8', 'replace')
        return '[' + ','.join(describe(I, e, depth + 1) for e in elems(I, v)) + ']'
    if isinstance(v, IntV):
        return str(v.sval()) if v.conc() else '?int'
    if isinstance(v, BoolV):
        return str(v.v)
    if isinstance(v, Agg):
        if v.kind == 'String':
            return describe(I, str_of_string(v), depth + 1)
        return v.kind + ('::' + v.variant if v.variant else '') + '(' + ','.join(describe(I, x, depth + 1) for x in v.fields) + ')'
    if isinstance(v, Opaque):
        if v.tag in ('fmtargs', 'fmtarg', 'anyhow', 'String'):
            return ''.join(describe(I, p, depth + 1) for p in v.parts)
        return '<' + v.tag + ':' + ','.join(describe(I, p, depth + 1) for p in v.parts) + '>'
    return repr(v)


# ------------------------------------------------------------------------------------------------ Try / Option / Result
def m_try_branch(I, args, callee):
    r = args[0]
    if r.kind == 'Result':
        if r.variant == 'Ok':
            return Agg('ControlFlow', [r.fields[0]], 'Continue')
        return Agg('ControlFlow', [Agg('Result', [r.fields[0]], 'Err')], 'Break')
    if r.kind == 'Option':
        if r.variant == 'Some':
            return Agg('ControlFlow', [r.fields[0]], 'Continue')
        return Agg('ControlFlow', [Agg('Option', [], 'None')], 'Break')
    raise Unsupported('try branch on ' + r.kind)


def m_from_residual(I, args, callee):
    r = args[0]
    if r.kind == 'Result' and 'anyhow::Error' in callee and not (isinstance(r.fields[0], Opaque) and r.fields[0].tag == 'anyhow'):
        # From<E> for anyhow::Error
        return Agg('Result', [Opaque('anyhow', (r.fields[0],))], 'Err')
    return Agg(r.kind, list(r.fields), r.variant)


def m_option_is(kind):
    def f(I, args, callee):
        o = I.deref(args[0])
        return BoolV(o.variant == kind)
    f.__name__ = 'm_option_is_' + kind
    return f


def m_unwrap(I, args, callee):
    o = args[0]
    if o.variant in ('Some', 'Ok'):
        return o.fields[0]
    I.fail('unwrap@' + I.curfn[-1].last, 'unwrap()/expect() on %s in %s' % (o.variant, I.curfn[-1].name))


def m_unwrap_or(I, args, callee):
    o, d = args
    return o.fields[0] if o.variant in ('Some', 'Ok') else d


def m_unwrap_or_else(I, args, callee):
    o, clo = args
    if o.variant in ('Some', 'Ok'):
        return o.fields[0]
    return closure_call(I, clo, [] if o.variant == 'None' else [o.fields[0]])


def m_unwrap_or_default(I, args, callee):
    o = args[0]
    if o.variant in ('Some', 'Ok'):
        return o.fields[0]
    return default_for(I, I.cur_dest_ty or '')


def m_option_map(I, args, callee):
    o, clo = args
    if o.variant == 'None':
        return none()
    return some(closure_call(I, clo, [o.fields[0]]))


def m_option_and_then(I, args, callee):
    o, clo = args
    if o.variant == 'None':
        return none()
    return closure_call(I, clo, [o.fields[0]])


def m_option_filter(I, args, callee):
    o, clo = args
    if o.variant == 'None':
        return none()
    r = closure_call(I, clo, [Ref(Cell(o.fields[0]), ())])
    return o if truthy(I, r) else none()


def m_result_map(I, args, callee):
    r, clo = args
    if r.variant == 'Err':
        return r
    return ok(closure_call(I, clo, [r.fields[0]]))


def m_result_map_err(I, args, callee):
    r, clo = args
    if r.variant == 'Ok':
        return r
    return err(closure_call(I, clo, [r.fields[0]]))


def m_ok_or_else(I, args, callee):
    o, clo = args
    if o.variant == 'Some':
        return ok(o.fields[0])
    return err(closure_call(I, clo, []))


def m_result_ok(I, args, callee):
    r = args[0]
    return some(r.fields[0]) if r.variant == 'Ok' else none()


def m_option_as_ref(I, args, callee):
    r = args[0]
    o = I.deref(r)
    if o.variant == 'None':
        return none()
    return some(Ref(Cell(o), (('f', 0),)))


def m_option_as_deref(I, args, callee):
    o = I.deref(args[0])
    if o.variant == 'None':
        return none()
    s = o.fields[0]
    s = I.deref(s) if isinstance(s, Ref) else s
    return some(as_slice(I, s))


def m_option_copied(I, args, callee):
    o = args[0]
    if o.variant == 'None':
        return o
    return some(deep_copy(I.deref(o.fields[0])))


def m_option_replace(I, args, callee):
    r = args[0]
    o = I.load(r.cell, r.path)
    I.store(r.cell, r.path, some(args[1]))
    return o


def m_option_take(I, args, callee):
    r = args[0]
    o = I.load(r.cell, r.path)
    I.store(r.cell, r.path, none())
    return o


def m_replace(I, args, callee):
    r, new = args
    old = I.load(r.cell, r.path)
    I.store(r.cell, r.path, new)
    return old


def m_mem_take(I, args, callee):
    r = args[0]
    old = I.load(r.cell, r.path)
    I.store(r.cell, r.path, default_like(old))
    return old


def default_like(v):
    if isinstance(v, Agg):
        if v.kind in ('Vec', 'VecDeque', 'HashMap', 'HashSet'):
            return Agg(v.kind, [])
        if v.kind == 'String':
            return string(b'')
        if v.kind == 'Option':
            return none()
    if isinstance(v, IntV):
        return IntV(v.w, 0, v.s)
    raise Unsupported('default_like %r' % (v,))


def default_for(I, ty):
    ty = ty.strip()
    m = re.match(r'^\[(\w+); (\d+)\]$', ty)
    if m:
        return Agg('array', [default_for(I, m.group(1)) for _ in range(int(m.group(2)))])
    last = re.sub(r'<.*$', '', ty).split('::')[-1]
    if last in ('Vec', 'VecDeque', 'HashMap', 'HashSet'):
        return Agg(last, [])
    if last == 'FxHashMap' or 'HashMap' in last:
        return Agg('HashMap', [])
    if last == 'String':
        return string(b'')
    if last == 'Option':
        return none()
    if last in ('usize', 'u64', 'u32', 'u16', 'u8', 'isize', 'i32', 'i64'):
        from .values import INT_W
        return IntV(INT_W[last], 0, last[0] == 'i')
    if last == 'bool':
        return BoolV(False)
    if last == 'SmallMap':
        return Agg('SmallMap', [vec()])
    if last == 'DenseMap':
        return Agg('DenseMap', [vec(), Agg('PhantomData', [])])
    if last == 'PhantomData':
        return Agg('PhantomData', [])
    raise Unsupported('default for type ' + ty)


def m_default(I, args, callee):
    m = re.match(r'^<(.*) as Default>::default$', callee)
    return default_for(I, m.group(1) if m else (I.cur_dest_ty or ''))


# ------------------------------------------------------------------------------------------------ slices / Vec
def m_get_unchecked(I, args, callee):
    sl, idx = args
    sl = as_slice(I, sl)
    if isinstance(idx, Agg):  # Range
        a, b = idx.fields
        okb = I.binop('BitAnd', I.binop('Le', a, b), I.binop('Le', b, usize(sl.len)))
        I.oblige(okb, 'get_unchecked-oob', 'get_unchecked(range) outside the slice (UB): len %d' % sl.len)
        av, bv = I.concretize(a, 'range start'), I.concretize(b, 'range end')
        return SliceRef(sl.cell, sl.path, sl.start + av, bv - av)
    I.oblige(I.binop('Lt', idx, usize(sl.len)), 'get_unchecked-oob',
             'get_unchecked(index) outside the slice (UB): len %d' % sl.len)
    i = I.concretize(idx, 'get_unchecked index')
    lst, start, ln = I.elems_of(sl)
    return Ref(Cell(Agg('view', lst)), (('f', start + i),))


def m_slice_get(I, args, callee):
    sl, idx = args
    sl = as_slice(I, sl)
    if isinstance(idx, Agg):
        n = usize(sl.len)
        kind = idx.kind
        if kind == 'Range':
            a, b = idx.fields
        elif kind == 'RangeFrom':
            a, b = idx.fields[0], n
        elif kind == 'RangeTo':
            a, b = usize(0), idx.fields[0]
        elif kind == 'RangeFull':
            a, b = usize(0), n
        elif kind == 'RangeInclusive':
            a, b = idx.fields[0], I.binop('Add', idx.fields[1], usize(1))
        else:
            raise Unsupported('slice::get by ' + kind)
        okb = I.binop('BitAnd', I.binop('Le', a, b), I.binop('Le', b, n))
        if not truthy(I, okb):
            return none()
        av, bv = I.concretize(a, 'range start', limit=400), I.concretize(b, 'range end', limit=400)
        return some(SliceRef(sl.cell, sl.path, sl.start + av, bv - av))
    inb = I.binop('Lt', idx, usize(sl.len))
    if not truthy(I, inb):
        return none()
    i = I.concretize(idx, 'get index')
    lst, start, ln = I.elems_of(sl)
    return some(Ref(Cell(Agg('view', lst)), (('f', start + i),)))


def m_slice_index(I, args, callee):
    """<[T] as Index<I>>::index / Vec / String / str / array with usize or ranges; panics (obligation) when outside"""
    r, idx = args
    sl = as_slice(I, r)
    if isinstance(idx, IntV):
        i = I.conc_index(idx, sl.len, 'slice index')
        lst, start, ln = I.elems_of(sl)
        return Ref(Cell(Agg('view', lst)), (('f', start + i),))
    kind = idx.kind
    n = usize(sl.len)
    if kind == 'Range':
        a, b = idx.fields
    elif kind == 'RangeFrom':
        a, b = idx.fields[0], n
    elif kind == 'RangeTo':
        a, b = usize(0), idx.fields[0]
    elif kind == 'RangeFull':
        a, b = usize(0), n
    elif kind == 'RangeInclusive':
        a, b = idx.fields[0], I.binop('Add', idx.fields[1], usize(1))
    else:
        raise Unsupported('index by ' + kind)
    okb = I.binop('BitAnd', I.binop('Le', a, b), I.binop('Le', b, n))
    I.oblige(okb, 'slice-range-oob', 'slice range out of bounds (len %d) in %s' % (sl.len, I.curfn[-1].name))
    av, bv = I.concretize(a, 'range start', limit=400), I.concretize(b, 'range end', limit=400)
    is_str = 'str' in callee.split(' as ')[0] or 'String' in callee.split(' as ')[0]
    if is_str:
        check_char_boundary(I, sl, av)
        check_char_boundary(I, sl, bv)
    return SliceRef(sl.cell, sl.path, sl.start + av, bv - av)


def is_boundary_expr(I, sl, i):
    """BoolV: byte offset i is a char boundary of the (assumed) UTF-8 text in sl"""
    if i == 0 or i == sl.len:
        return BoolV(True)
    if i > sl.len:
        return BoolV(False)
    b = elems(I, sl)[i]
    if b.conc():
        return BoolV((b.v & 0xC0) != 0x80)
    return I._boolv((b.v & 0xC0) != 0x80)


def check_char_boundary(I, sl, i):
    I.oblige(is_boundary_expr(I, sl, i), 'str-char-boundary',
             'str sliced at byte %d which is not a char boundary (panic) in %s' % (i, I.curfn[-1].name))


def m_is_char_boundary(I, args, callee):
    sl, idx = args
    sl = as_slice(I, sl)
    if idx.conc():
        return is_boundary_expr(I, sl, idx.v)
    # symbolic index: disjunction over the positions (no forking)
    alts = []
    for k in range(sl.len + 1):
        b = is_boundary_expr(I, sl, k)
        if b.conc():
            if b.v:
                alts.append(idx.v == k)
        else:
            alts.append(z3.And(idx.v == k, b.v))
    return I._boolv(z3.Or(alts)) if alts else BoolV(False)


def m_vec_new(I, args, callee):
    return vec()


def m_vec_with_capacity(I, args, callee):
    return vec()


def m_vec_push(I, args, callee):
    I.deref(args[0]).fields.append(args[1])
    return UNIT


def m_vec_pop(I, args, callee):
    v = I.deref(args[0])
    if not v.fields:
        return none()
    return some(v.fields.pop())


def m_vec_clear(I, args, callee):
    v = I.deref(args[0])
    I.container_list(v).clear()
    return UNIT


def m_len(I, args, callee):
    a = args[0]
    if isinstance(a, SliceRef):
        return usize(a.len)
    v = I.deref(a)
    if isinstance(v, SliceRef):
        return usize(v.len)
    return usize(len(I.container_list(v)))


def m_is_empty(I, args, callee):
    return BoolV(m_len(I, args, callee).v == 0)


def m_clone(I, args, callee):
    v = I.deref(args[0])
    if isinstance(v, SliceRef):
        return v
    return deep_copy(v)


def m_to_owned_str(I, args, callee):
    sl = as_slice(I, args[0])
    return string_of(list(elems(I, sl)))


def m_to_vec(I, args, callee):
    sl = as_slice(I, args[0])
    return vec(deep_copy(e) for e in elems(I, sl))


def m_deref_slice(I, args, callee):
    return as_slice(I, args[0])


def m_extend_from_slice(I, args, callee):
    v = I.deref(args[0])
    I.container_list(v).extend(elems(I, as_slice(I, args[1])))
    return UNIT


def m_vec_extend(I, args, callee):
    v = I.deref(args[0])
    src = args[1]
    if isinstance(src, Agg) and src.kind in ('Vec',):
        I.container_list(v).extend(src.fields)
        return UNIT
    if isinstance(src, Agg) and src.kind in ('PyIter', 'SliceIter'):
        for x in iter_items(I, src):
            I.container_list(v).append(x)
        return UNIT
    raise Unsupported('Vec::extend from %r' % (src,))


def m_vec_truncate(I, args, callee):
    v = I.deref(args[0])
    n = I.concretize(args[1], 'truncate len')
    lst = I.container_list(v)
    if n < len(lst):
        del lst[n:]
    return UNIT


def m_vec_resize(I, args, callee):
    v = I.deref(args[0])
    n = I.concretize(args[1], 'resize len')
    lst = I.container_list(v)
    if n < len(lst):
        del lst[n:]
    else:
        if n - len(lst) > 4096:
            raise Unsupported('resize too large')
        while len(lst) < n:
            lst.append(deep_copy(args[2]))
    return UNIT


def m_from_elem(I, args, callee):
    el, n = args
    k = I.concretize(n, 'vec![x; n]', limit=70000)
    if k > 70000:
        raise Unsupported('vec![x; n] too large')
    return vec(deep_copy(el) for _ in range(k))


def m_vec_contains(I, args, callee):
    sl = as_slice(I, args[0])
    x = args[1]
    for e in elems(I, sl):
        if truthy(I, val_eq(I, e, x)):
            return BoolV(True)
    return BoolV(False)


def m_slice_iter(I, args, callee):
    return Agg('SliceIter', [as_slice(I, args[0]), IntV(64, 0)])


def m_slice_iter_next(I, args, callee):
    it = I.deref(args[0])
    sl, pos = it.fields
    if pos.v >= sl.len:
        return none()
    it.fields[1] = IntV(64, pos.v + 1)
    lst, start, ln = I.elems_of(sl)
    return some(Ref(Cell(Agg('view', lst)), (('f', start + pos.v),)))


def m_slice_iter_len(I, args, callee):
    it = I.deref(args[0])
    return usize(it.fields[0].len - it.fields[1].v)


def m_into_iter_vec(I, args, callee):
    v = args[0]
    if isinstance(v, Agg) and v.kind in ('Vec', 'array', 'VecDeque'):
        return new_iter(v.fields)
    if isinstance(v, Agg) and v.kind in ('PyIter', 'SliceIter', 'Range', 'MapIter', 'EnumIter', 'ChainIter'):
        return v
    return Agg('SliceIter', [as_slice(I, v), IntV(64, 0)])


def m_pyiter_next(I, args, callee):
    it = I.deref(args[0])
    if it.kind == 'SliceIter':
        return m_slice_iter_next(I, args, callee)
    items, pos = it.fields
    if pos.v >= len(items.fields):
        return none()
    it.fields[1] = IntV(64, pos.v + 1)
    return some(items.fields[pos.v])


def m_iter_enumerate(I, args, callee):
    it = args[0]
    items = iter_items(I, it)
    return new_iter([Agg('tuple', [usize(i), x]) for i, x in enumerate(items)])


def m_iter_map(I, args, callee):
    it, clo = args
    return new_iter([closure_call(I, clo, [x]) for x in iter_items(I, it)])


def m_iter_take(I, args, callee):
    it, n = args
    k = I.concretize(n, 'take')
    return new_iter(iter_items(I, it)[:k])


def m_iter_chain(I, args, callee):
    a, b = args
    b_items = iter_items(I, b) if isinstance(b, Agg) and b.kind in ('PyIter', 'SliceIter') else iter_items(I, m_into_iter_vec(I, [b], callee))
    return new_iter(iter_items(I, a) + b_items)


def m_iter_collect(I, args, callee):
    it = args[0]
    items = iter_items(I, it)
    m = re.search(r'collect::<(.*)>$', callee)
    ty = m.group(1) if m else (I.cur_dest_ty or 'Vec')
    items = [deep_copy(I.deref(x)) if False else x for x in items]
    if ty.startswith('Vec') or 'Vec<' in ty:
        return vec(items)
    if ty.startswith('String'):
        raise Unsupported('collect into String')
    raise Unsupported('collect into ' + ty)


def m_iter_position(I, args, callee):
    it, clo = args
    itv = I.deref(it) if isinstance(it, Ref) else it
    items = iter_items(I, itv)
    for i, x in enumerate(items):
        if truthy(I, closure_call(I, clo, [x])):
            if itv.kind in ('SliceIter', 'PyIter'):
                itv.fields[1] = IntV(64, itv.fields[1].v + i + 1)
            return some(usize(i))
    return none()


def m_iter_rposition(I, args, callee):
    it, clo = args
    itv = I.deref(it) if isinstance(it, Ref) else it
    items = iter_items(I, itv)
    for i in range(len(items) - 1, -1, -1):
        if truthy(I, closure_call(I, clo, [items[i]])):
            return some(usize(i))
    return none()


def m_iter_any(I, args, callee):
    it, clo = args
    itv = I.deref(it) if isinstance(it, Ref) else it
    for x in iter_items(I, itv):
        if truthy(I, closure_call(I, clo, [x])):
            return BoolV(True)
    return BoolV(False)


def m_iter_find(I, args, callee):
    it, clo = args
    itv = I.deref(it) if isinstance(it, Ref) else it
    for x in iter_items(I, itv):
        if truthy(I, closure_call(I, clo, [Ref(Cell(x), ())])):
            return some(x)
    return none()


def m_iter_sum(I, args, callee):
    acc = usize(0)
    for x in iter_items(I, args[0]):
        acc = I.binop('Add', acc, x)
    return acc


def m_iter_flat_map(I, args, callee):
    it, clo = args
    out = []
    for x in iter_items(I, it):
        sub = closure_call(I, clo, [x])
        out.extend(iter_items(I, sub))
    return new_iter(out)


def m_range_into_iter(I, args, callee):
    return args[0]


def m_range_next(I, args, callee):
    r = I.deref(args[0])
    a, b = r.fields
    if truthy(I, I.binop('Lt', a, b)):
        r.fields[0] = I.binop('Add', a, IntV(a.w, 1, a.s))
        return some(a)
    return none()


def m_slice_split(I, args, callee):
    sl, clo = as_slice(I, args[0]), args[1]
    parts = []
    cur = 0
    es = elems(I, sl)
    for i, e in enumerate(es):
        lst, start, ln = I.elems_of(sl)
        r = closure_call(I, clo, [Ref(Cell(Agg('view', lst)), (('f', start + i),))])
        if truthy(I, r):
            parts.append(SliceRef(sl.cell, sl.path, sl.start + cur, i - cur))
            cur = i + 1
    parts.append(SliceRef(sl.cell, sl.path, sl.start + cur, sl.len - cur))
    return new_iter(parts)


def m_ends_with(I, args, callee):
    a, b = as_slice(I, args[0]), as_slice(I, args[1])
    if b.len > a.len:
        return BoolV(False)
    return seq_eq(I, SliceRef(a.cell, a.path, a.start + a.len - b.len, b.len), b)


def m_starts_with(I, args, callee):
    a, b = as_slice(I, args[0]), as_slice(I, args[1])
    if b.len > a.len:
        return BoolV(False)
    return seq_eq(I, SliceRef(a.cell, a.path, a.start, b.len), b)


def m_strip_prefix(I, args, callee):
    a, b = as_slice(I, args[0]), as_slice(I, args[1])
    if b.len > a.len:
        return none()
    if truthy(I, seq_eq(I, SliceRef(a.cell, a.path, a.start, b.len), b)):
        return some(SliceRef(a.cell, a.path, a.start + b.len, a.len - b.len))
    return none()


def m_strip_suffix_char(I, args, callee):
    s, ch = as_slice(I, args[0]), args[1]
    if s.len == 0:
        return none()
    if ch.conc() and ch.v >= 0x80:
        raise Unsupported('strip_suffix(non-ascii char)')
    last = elems(I, s)[-1]
    if truthy(I, I.binop('Eq', char_of_byte(last), ch)):
        return some(SliceRef(s.cell, s.path, s.start, s.len - 1))
    return none()


def m_copy_within(I, args, callee):
    sl, rng, dst = as_slice(I, args[0]), args[1], args[2]
    a, b = rng.fields
    okb = I.binop('BitAnd', I.binop('Le', a, b), I.binop('Le', b, usize(sl.len)))
    I.oblige(okb, 'copy_within-oob', 'copy_within source range out of bounds')
    av, bv = I.concretize(a), I.concretize(b)
    I.oblige(I.binop('Le', dst, usize(sl.len - (bv - av))), 'copy_within-oob', 'copy_within destination out of bounds')
    dv = I.concretize(dst)
    lst, start, ln = I.elems_of(sl)
    chunk = lst[start + av:start + bv]
    lst[start + dv:start + dv + len(chunk)] = chunk
    return UNIT


def m_partial_eq(I, args, callee):
    return val_eq(I, args[0], args[1])


def m_partial_ne(I, args, callee):
    return I.bnot(val_eq(I, args[0], args[1]))


# ------------------------------------------------------------------------------------------------ String / str
def m_string_new(I, args, callee):
    return string(b'')


def m_string_push_str(I, args, callee):
    s = I.deref(args[0])
    s.fields[0].fields.extend(elems(I, as_slice(I, args[1])))
    return UNIT


def encode_utf8_conc(c):
    return list(chr(c).encode('utf-8'))


def m_string_push(I, args, callee):
    s = I.deref(args[0])
    ch = args[1]
    if ch.conc():
        s.fields[0].fields.extend(IntV(8, b) for b in encode_utf8_conc(ch.v))
    else:
        I.oblige(I.binop('Lt', ch, IntV(32, 0x80)), 'push-nonascii-symbolic', 'String::push of a symbolic non-ASCII char is not modelled')
        s.fields[0].fields.append(IntV(8, z3.Extract(7, 0, ch.v)))
    return UNIT


def m_string_truncate(I, args, callee):
    s = I.deref(args[0])
    lst = s.fields[0].fields
    n = args[1]
    if truthy(I, I.binop('Le', n, usize(len(lst)))):
        k = I.concretize(n, 'String::truncate len', limit=400)
        sl = SliceRef(Cell(s.fields[0]), (), 0, len(lst))
        I.oblige(is_boundary_expr(I, sl, k), 'truncate-char-boundary',
                 'String::truncate(%d) is not on a char boundary (panic)' % k)
        del lst[k:]
    return UNIT


def m_string_from_str(I, args, callee):
    return m_to_owned_str(I, args, callee)


def m_into_string(I, args, callee):
    a = args[0]
    if isinstance(a, SliceRef) or isinstance(a, Ref):
        return m_to_owned_str(I, [a], callee)
    return a


def m_string_from_utf8_unchecked(I, args, callee):
    v = args[0]
    return Agg('String', [v])


def m_as_mut_vec(I, args, callee):
    r = args[0]
    s = I.deref(r)
    return Ref(Cell(s), (('f', 0),))


def m_vec_set_len(I, args, callee):
    v = I.deref(args[0])
    n = args[1]
    I.oblige(I.binop('Le', n, usize(len(v.fields))), 'set_len-grow', 'Vec::set_len beyond the initialised length (UB)')
    k = I.concretize(n, 'set_len')
    del v.fields[k:]
    return UNIT


def m_assert_unchecked(I, args, callee):
    I.oblige(args[0], 'assert_unchecked', 'hint::assert_unchecked(false) is UB, in ' + I.curfn[-1].name)
    return UNIT


def m_str_repeat(I, args, callee):
    s, n = as_slice(I, args[0]), args[1]
    k = I.concretize(n, 'str::repeat count', limit=400)
    if k * s.len > 100000:
        raise Unsupported('repeat too large')
    return string_of(list(elems(I, s)) * k)


def m_str_parse_usize(I, args, callee):
    """str::parse::<usize>: optional '+', then one or more ASCII digits, value < 2^64; anything else is Err"""
    s = as_slice(I, args[0])
    es = elems(I, s)
    bad = err(Opaque('ParseIntError', ('invalid digit found in string',)))
    if not es:
        return err(Opaque('ParseIntError', ('cannot parse integer from empty string',)))
    i = 0
    if len(es) > 1 and truthy(I, I.binop('Eq', es[0], IntV(8, 43))):
        i = 1
    if len(es) - i > 19:
        raise Unsupported('parse::<usize> of more than 19 digits')
    acc = IntV(64, 0)
    for e in es[i:]:
        isd = I.binop('BitAnd', I.binop('Ge', e, IntV(8, 48)), I.binop('Le', e, IntV(8, 57)))
        if not truthy(I, isd):
            return bad
        d = IntV(64, e.v - 48) if e.conc() else IntV(64, z3.ZeroExt(56, e.v - 48))
        acc = I.binop('Add', I.binop('Mul', acc, IntV(64, 10)), d)
    return ok(acc)


def m_box_new_uninit(I, args, callee):
    """Box::<[T; N]>::new_uninit() as used by the vec![..] lowering: Box -> Unique -> NonNull -> MaybeUninit{ManuallyDrop{MaybeDangling{value}}}"""
    inner = Agg('MaybeUninit', [UNIT, Agg('ManuallyDrop', [Agg('MaybeDangling', [HOLE])])])
    return Agg('BoxRaw', [Agg('Unique', [Ref(Cell(inner), ()), Agg('PhantomData', [])])])


def m_box_into_vec(I, args, callee):
    inner = I.deref(args[0].fields[0].fields[0])
    arr = inner.fields[1].fields[0].fields[0]
    if arr is HOLE:
        I.fail('assume_init-uninit', 'box_assume_init_into_vec on an unwritten box (UB)')
    return vec(arr.fields)


def m_path_to_path_buf(I, args, callee):
    return Agg('PathBuf', [m_to_owned_str(I, [as_slice(I, args[0])], callee)])


def m_char_eq_pattern(I, args, callee):
    raise Unsupported(callee)


# ------------------------------------------------------------------------------------------------ fmt / errors
def m_fmt_args(I, args, callee):
    """fmt::Arguments::new::<N, M>(template, &args) / from_str(s): kept symbolic-free as (template bytes, args)"""
    if 'from_str' in callee or len(args) == 1:
        return Opaque('fmtargs', (None, args[0]))
    tmpl = args[0]
    tb = conc_bytes(I, as_slice(I, tmpl))
    arr = I.deref(args[1])
    return Opaque('fmtargs', (tb, list(arr.fields)))


def m_fmt_arg(I, args, callee):
    m = re.search(r'::new_(\w+)::<(.*)>$', callee)
    return Opaque('fmtarg', (m.group(1) if m else 'display', m.group(2) if m else '', args[0]))


def _digits(n):
    return [IntV(8, ord(c)) for c in str(n)]


def render_value(I, kind, ty, ref, out):
    """append the Display/Debug rendering of one format argument to out (list of IntV(8))"""
    v = I.deref(ref) if isinstance(ref, Ref) else ref
    if isinstance(v, IntV):
        if ty == 'char' or (v.w == 32 and ty.endswith('char')):
            if not v.conc():
                if kind == 'debug':
                    out.append(IntV(8, 39))
                out.append(IntV(8, z3.Extract(7, 0, v.v)))   # approximation for symbolic chars: low byte
                if kind == 'debug':
                    out.append(IntV(8, 39))
                return
            txt = chr(v.v)
            if kind == 'debug':
                txt = repr_rust_char(txt)
            out.extend(IntV(8, b) for b in txt.encode('utf-8'))
            return
        if v.conc():
            out.extend(_digits(v.sval()))
            return
        # symbolic integer: fork on the NUMBER OF DIGITS (solver-decided); the digits themselves are fresh symbolic bytes
        if v.s:
            # a signed value that is provably non-negative on this path prints like the unsigned one
            if z3.is_int(v.v) or I.check_with(v.v < 0) != z3.unsat:
                raise Unsupported('Display of a symbolic signed integer that may be negative')
        isint = z3.is_int(v.v)
        alts = []
        maxd = 20 if v.w >= 64 else (10 if v.w == 32 else 5)
        for d in range(1, maxd + 1):
            lo, hi = (0 if d == 1 else 10 ** (d - 1)), 10 ** d
            if isint:
                c = z3.And(v.v >= lo, v.v < hi)
            else:
                top = (1 << v.w) - 1
                if lo > top:
                    break
                c = z3.UGE(v.v, lo) if hi > top else z3.And(z3.UGE(v.v, lo), z3.ULT(v.v, hi))
            alts.append((('digits', d), c))
        d = I.decide(alts)[1]
        for k in range(d):
            b = I.fresh_int('digit%d_%d' % (I.fresh_n, k), 8)
            I.solver.add(b.v >= 48, b.v <= 57)
            out.append(b)
        I.fresh_n += 1
        return
    if isinstance(v, BoolV):
        out.extend(IntV(8, b) for b in (b'true' if v.v is True else b'false' if v.v is False else b'<bool>'))
        return
    if isinstance(v, SliceRef) or (isinstance(v, Agg) and v.kind in ('String', 'PathBuf', 'Cow', 'Vec')):
        sl = as_slice(I, v)
        es = elems(I, sl)
        if kind == 'debug':
            out.append(IntV(8, 34))
            for e in es:
                if e.conc() and e.v in (34, 92):
                    out.append(IntV(8, 92))
                out.append(e)
            out.append(IntV(8, 34))
        else:
            out.extend(es)
        return
    if isinstance(v, Agg) and v.kind == 'FileLoc':
        # impl Display for FileLoc: "{}:{}", filename.display(), line
        fn = I.deref(v.fields[0])
        if isinstance(fn, Agg) and fn.kind == 'Rc':
            fn = fn.fields[0].v
        render_value(I, 'display', 'Path', fn, out)
        out.append(IntV(8, 58))
        render_value(I, 'display', 'usize', v.fields[1], out)
        return
    if isinstance(v, Agg) and v.kind == 'Display':
        render_value(I, 'display', 'Path', v.fields[0], out)
        return
    if isinstance(v, Opaque):
        if v.tag == 'ParseIntError':
            out.extend(IntV(8, b) for b in (v.parts[0] if v.parts else 'invalid digit found in string').encode())
            return
        if v.tag in ('String', 'anyhow') and v.parts and isinstance(v.parts[0], Agg):
            render_value(I, kind, 'String', v.parts[0], out)
            return
        out.extend(IntV(8, b) for b in ('<%s>' % v.tag).encode())
        for p_ in v.parts:
            if isinstance(p_, (bytes, str)):
                out.extend(IntV(8, b) for b in (p_ if isinstance(p_, bytes) else p_.encode()))
        return
    if isinstance(v, Agg):
        out.extend(IntV(8, b) for b in ('<%s%s>' % (v.kind, '::' + v.variant if v.variant else '')).encode())
        return
    out.extend(IntV(8, b) for b in b'<?>')


def repr_rust_char(c):
    esc = {'\n': '\\n', '\r': '\\r', '\t': '\\t', '\0': '\\0', "'": "\\'", '\\': '\\\\'}
    return "'" + esc.get(c, c) + "'"


def render_args(I, fa):
    """bytes (list of IntV(8)) of a fmt::Arguments value"""
    out = []
    if not isinstance(fa, Opaque) or fa.tag != 'fmtargs':
        raise Unsupported('format of %r' % (fa,))
    tb, fargs = fa.parts
    if tb is None:
        out.extend(elems(I, as_slice(I, fargs)))
        return out
    i = 0
    argi = 0
    while True:
        n = tb[i]
        i += 1
        if n == 0:
            break
        if n < 0x80:
            out.extend(IntV(8, b) for b in tb[i:i + n])
            i += n
        elif n == 0x80:
            ln = tb[i] | (tb[i + 1] << 8)
            i += 2
            out.extend(IntV(8, b) for b in tb[i:i + ln])
            i += ln
        else:
            if n & 1:
                i += 4
            if n & 2:
                i += 2
            if n & 4:
                i += 2
            if n & 8:
                argi = tb[i] | (tb[i + 1] << 8)
                i += 2
            a = fargs[argi]
            argi += 1
            if isinstance(a, Opaque) and a.tag == 'fmtarg':
                render_value(I, a.parts[0], a.parts[1], a.parts[2], out)
            else:
                out.extend(IntV(8, b) for b in b'<arg>')
    return out


def m_format(I, args, callee):
    return string_of(render_args(I, args[0]))


def m_anyhow_msg(I, args, callee):
    """anyhow!(..)/bail!(..) constructors: the error carries its rendered message"""
    a = args[0]
    if isinstance(a, Opaque) and a.tag == 'fmtargs':
        return Opaque('anyhow', (string_of(render_args(I, a)),))
    if isinstance(a, Agg) and a.kind == 'String':
        return Opaque('anyhow', (a,))
    if isinstance(a, SliceRef):
        return Opaque('anyhow', (string_of(list(elems(I, a))),))
    return Opaque('anyhow', tuple(args))


def m_anyhow(I, args, callee):
    for a in args:
        if (isinstance(a, Opaque) and a.tag == 'fmtargs') or (isinstance(a, Agg) and a.kind == 'String') or isinstance(a, SliceRef):
            return m_anyhow_msg(I, [a], callee)
    for a in args:
        if isinstance(a, Opaque) and a.tag == 'anyhow':
            return a
    return Opaque('anyhow', tuple(args))


def anyhow_text(I, e):
    """bytes of an error message when it is concrete, else None"""
    if isinstance(e, Opaque) and e.parts and isinstance(e.parts[0], Agg) and e.parts[0].kind == 'String':
        return conc_bytes(I, str_of_string(e.parts[0]))
    if isinstance(e, Opaque) and e.parts and isinstance(e.parts[0], Opaque):
        return anyhow_text(I, e.parts[0])
    return None


def m_to_string(I, args, callee):
    a = args[0]
    v = I.deref(a) if isinstance(a, Ref) else a
    if isinstance(v, SliceRef):
        return m_to_owned_str(I, [v], callee)
    if isinstance(v, Agg) and v.kind == 'String':
        return deep_copy(v)
    return Opaque('String', (a,))


# ------------------------------------------------------------------------------------------------ integers
def m_to_le(I, args, callee):
    x = args[0]
    out = []
    for i in range(x.w // 8):
        if x.conc():
            out.append(IntV(8, (x.v >> (8 * i)) & 0xff))
        else:
            out.append(IntV(8, z3.simplify(z3.Extract(8 * i + 7, 8 * i, x.v))))
    return Agg('array', out)


def m_from_le(I, args, callee):
    bs = args[0].fields
    w = 8 * len(bs)
    if all(b.conc() for b in bs):
        v = 0
        for i, b in enumerate(bs):
            v |= b.v << (8 * i)
        return IntV(w, v)
    return IntV(w, z3.simplify(z3.Concat(*[b.z() for b in reversed(bs)])))


def m_array_as_slice(I, args, callee):
    return as_slice(I, args[0])


# ------------------------------------------------------------------------------------------------ maps
def key_eq(I, a, b):
    return val_eq(I, a, b)


def m_map_new(kind):
    def f(I, args, callee):
        return Agg(kind, [])
    f.__name__ = 'm_new_' + kind
    return f


def key_sig(I, k):
    """hashable signature of a fully concrete key, else None"""
    k = I.deref(k) if isinstance(k, Ref) else k
    if isinstance(k, IntV):
        return k.v if k.conc() else None
    if isinstance(k, SliceRef):
        return conc_bytes(I, k)
    if isinstance(k, Agg):
        if k.kind == 'String':
            return conc_bytes(I, str_of_string(k))
        if k.kind in ('PathBuf', 'OsString') and len(k.fields) == 1:
            return key_sig(I, k.fields[0])      # Borrow<Path> for PathBuf: a map keyed by PathBuf is probed with &Path
        parts = []
        for f in k.fields:
            sg = key_sig(I, f)
            if sg is None:
                return None
            parts.append(sg)
        return (k.kind, k.variant, tuple(parts))
    return None


def map_index(I, hm):
    """dict signature -> entry index, valid while every key is concrete (kept in hm.meta)"""
    m = hm.meta
    if m is None or m.get('n') != len(hm.fields) or m.get('ver') is not hm.fields:
        idx = {}
        okk = True
        for i, ent in enumerate(hm.fields):
            key = ent.fields[0] if hm.kind != 'HashSet' else ent
            sg = key_sig(I, key)
            if sg is None:
                okk = False
                break
            idx[sg] = i
        m = {'n': len(hm.fields), 'ver': hm.fields, 'idx': idx if okk else None}
        hm.meta = m
    return m['idx']


def map_find(I, hm, k):
    sg = key_sig(I, k)
    if sg is not None:
        idx = map_index(I, hm)
        if idx is not None:
            return idx.get(sg)
    for i, ent in enumerate(hm.fields):
        if truthy(I, key_eq(I, ent.fields[0], k)):
            return i
    return None


def map_added(I, hm, k):
    """keep the index current after an append"""
    m = hm.meta
    if m is not None and m.get('idx') is not None and m.get('n') == len(hm.fields) - 1:
        sg = key_sig(I, k)
        if sg is not None:
            m['idx'][sg] = len(hm.fields) - 1
            m['n'] = len(hm.fields)
            return
    hm.meta = None


def m_hm_get(I, args, callee):
    hm = I.deref(args[0])
    k = args[1]
    i = map_find(I, hm, k)
    if i is None:
        return none()
    return some(Ref(Cell(hm.fields[i]), (('f', 1),)))


def m_hm_contains_key(I, args, callee):
    hm = I.deref(args[0])
    return BoolV(map_find(I, hm, args[1]) is not None)


def m_hm_insert(I, args, callee):
    hm = I.deref(args[0])
    k, v = args[1], args[2]
    i = map_find(I, hm, k)
    if i is not None:
        old = hm.fields[i].fields[1]
        hm.fields[i].fields[1] = v
        return some(old)
    hm.fields.append(Agg('tuple', [k, v]))
    map_added(I, hm, k)
    return none()


def m_hm_entry(I, args, callee):
    hm = I.deref(args[0])
    k = args[1]
    i = map_find(I, hm, k)
    if i is not None:
        return Agg('Entry', [Agg('OccupiedEntry', [Ref(Cell(hm.fields[i]), ())])], 'Occupied')
    return Agg('Entry', [Agg('VacantEntry', [Ref(Cell(hm), ()), k])], 'Vacant')


def m_occupied_get(I, args, callee):
    e = I.deref(args[0])
    ent = I.deref(e.fields[0])
    return Ref(Cell(ent), (('f', 1),))


def m_vacant_key(I, args, callee):
    e = I.deref(args[0])
    return Ref(Cell(e), (('f', 1),))


def m_vacant_insert(I, args, callee):
    e, v = args
    hm = I.deref(e.fields[0])
    ent = Agg('tuple', [e.fields[1], v])
    hm.fields.append(ent)
    map_added(I, hm, e.fields[1])
    return Ref(Cell(ent), (('f', 1),))


def m_hs_contains(I, args, callee):
    s_ = I.deref(args[0])
    for x in s_.fields:
        if truthy(I, key_eq(I, x, args[1])):
            return BoolV(True)
    return BoolV(False)


def m_hs_remove(I, args, callee):
    s_ = I.deref(args[0])
    for i, x in enumerate(s_.fields):
        if truthy(I, key_eq(I, x, args[1])):
            del s_.fields[i]
            s_.meta = None
            return BoolV(True)
    return BoolV(False)


def m_hm_remove(I, args, callee):
    hm = I.deref(args[0])
    i = map_find(I, hm, args[1])
    if i is None:
        return none()
    ent = hm.fields.pop(i)
    hm.meta = None
    return some(ent.fields[1])


def m_hm_values(I, args, callee):
    hm = I.deref(args[0])
    return new_iter([Ref(Cell(e), (('f', 1),)) for e in hm.fields])


def m_hm_keys(I, args, callee):
    hm = I.deref(args[0])
    return new_iter([Ref(Cell(e), (('f', 0),)) for e in hm.fields])


def m_hs_iter(I, args, callee):
    s_ = I.deref(args[0])
    return new_iter([Ref(Cell(Agg('view', s_.fields)), (('f', i),)) for i in range(len(s_.fields))])


def m_hs_insert(I, args, callee):
    s = I.deref(args[0])
    for x in s.fields:
        if truthy(I, key_eq(I, x, args[1])):
            return BoolV(False)
    s.fields.append(args[1])
    return BoolV(True)


def m_hs_into_iter(I, args, callee):
    s = args[0]
    items = list(s.fields)
    # iteration order of a hash set is unspecified: every rotation/reversal is explored symbolically
    if len(items) > 1:
        import itertools
        perms = list(itertools.permutations(range(len(items)))) if len(items) <= 3 else \
            [tuple(range(r, len(items))) + tuple(range(r)) for r in range(len(items))]
        p = perms[I.choose('hashorder%d' % I.fresh_n, len(perms))]
        I.fresh_n += 1
        items = [items[i] for i in p]
    return new_iter(items)


def m_hm_iter(I, args, callee):
    hm = I.deref(args[0])
    items = list(hm.fields)
    if len(items) > 1:
        r = I.choose('hashorder%d' % I.fresh_n, len(items))
        I.fresh_n += 1
        items = items[r:] + items[:r]
    # (&K, &V)
    return new_iter([Agg('tuple', [Ref(Cell(e), (('f', 0),)), Ref(Cell(e), (('f', 1),))]) for e in items])


# ------------------------------------------------------------------------------------------------ VecDeque
def m_push_back(I, args, callee):
    I.deref(args[0]).fields.append(args[1])
    return UNIT


def m_pop_front(I, args, callee):
    d = I.deref(args[0])
    if not d.fields:
        return none()
    return some(d.fields.pop(0))


# ------------------------------------------------------------------------------------------------ MaybeUninit / misc
class _Hole:
    def __repr__(self):
        return 'UNWRITTEN'


HOLE = _Hole()


def m_maybeuninit_uninit(I, args, callee):
    return Agg('MaybeUninit', [HOLE])


def m_maybeuninit_write(I, args, callee):
    mu = I.deref(args[0])
    mu.fields[0] = args[1]
    return Ref(Cell(mu), (('f', 0),))


def m_maybeuninit_assume_init(I, args, callee):
    mu = args[0]
    if mu.fields[0] is HOLE:
        I.fail('assume_init-uninit', 'MaybeUninit::assume_init on a slot that was never written (UB)')
    return mu.fields[0]


def m_rc_new(I, args, callee):
    return Agg('Rc', [Cell(args[0])])


def m_rc_deref(I, args, callee):
    rc = I.deref(args[0])
    return Ref(rc.fields[0], ())


def m_rc_clone(I, args, callee):
    rc = I.deref(args[0])
    return Agg('Rc', [rc.fields[0]])


def m_box_new(I, args, callee):
    return Agg('Box', [Cell(args[0])])


def m_pathbuf_from(I, args, callee):
    a = args[0]
    if isinstance(a, Agg) and a.kind == 'String':
        return Agg('PathBuf', [a])
    return Agg('PathBuf', [m_to_owned_str(I, [a], callee)])


def m_path_new(I, args, callee):
    return as_slice(I, args[0])


def m_cow_deref(I, args, callee):
    c = I.deref(args[0])
    return as_slice(I, c.fields[0])


def m_borrow_str(I, args, callee):
    return as_slice(I, args[0])


def m_as_ref_str(I, args, callee):
    a = args[0]
    v = I.deref(a)
    if isinstance(v, Agg) and v.kind == 'Cow':
        return as_slice(I, v.fields[0])
    return as_slice(I, a)


def sort_key(I, v):
    sg = key_sig(I, v)
    if sg is None:
        raise Unsupported('sort of symbolic elements')
    return _flat(sg)


def _flat(sg):
    if isinstance(sg, tuple):
        out = []
        for x in sg:
            f = _flat(x)
            out.extend(f if isinstance(f, list) else [f])
        return [x for x in out if not isinstance(x, str) and x is not None]
    return sg


def m_slice_sort(I, args, callee):
    sl = as_slice(I, args[0])
    lst, start, ln = I.elems_of(sl)
    part = lst[start:start + ln]
    part.sort(key=lambda v: sort_key(I, v))
    lst[start:start + ln] = part
    return UNIT


def m_vec_dedup(I, args, callee):
    v = I.deref(args[0])
    out = []
    for x in v.fields:
        if out and truthy(I, val_eq(I, out[-1], x)):
            continue
        out.append(x)
    v.fields[:] = out
    return UNIT


def _items(I, it):
    itv = I.deref(it) if isinstance(it, Ref) else it
    if isinstance(itv, Agg) and itv.kind in ('PyIter', 'SliceIter', 'Range'):
        return iter_items(I, itv)
    return iter_items(I, m_into_iter_vec(I, [itv], ''))


def m_iter_filter_map(I, args, callee):
    out = []
    for x in _items(I, args[0]):
        r = closure_call(I, args[1], [x])
        if r.variant == 'Some':
            out.append(r.fields[0])
    return new_iter(out)


def m_iter_filter(I, args, callee):
    out = []
    for x in _items(I, args[0]):
        if truthy(I, closure_call(I, args[1], [Ref(Cell(x), ())])):
            out.append(x)
    return new_iter(out)


def m_iter_all(I, args, callee):
    for x in _items(I, args[0]):
        if not truthy(I, closure_call(I, args[1], [x])):
            return BoolV(False)
    return BoolV(True)


def m_iter_find_map(I, args, callee):
    for x in _items(I, args[0]):
        r = closure_call(I, args[1], [x])
        if r.variant == 'Some':
            return r
    return none()


def m_iter_cloned(I, args, callee):
    return new_iter([deep_copy(I.deref(x)) if isinstance(x, Ref) else x for x in _items(I, args[0])])


def m_iter_rev(I, args, callee):
    return new_iter(list(reversed(_items(I, args[0]))))


def m_iter_skip(I, args, callee):
    return new_iter(_items(I, args[0])[I.concretize(args[1], 'skip'):])


def m_iter_count(I, args, callee):
    return usize(len(_items(I, args[0])))


def m_iter_last(I, args, callee):
    xs = _items(I, args[0])
    return some(xs[-1]) if xs else none()


def m_iter_zip(I, args, callee):
    a, b = _items(I, args[0]), _items(I, args[1])
    return new_iter([Agg('tuple', [x, y]) for x, y in zip(a, b)])


def m_iter_for_each(I, args, callee):
    for x in _items(I, args[0]):
        closure_call(I, args[1], [x])
    return UNIT


def m_iter_fold(I, args, callee):
    acc = args[1]
    for x in _items(I, args[0]):
        acc = closure_call(I, args[2], [acc, x])
    return acc


def m_iter_nth(I, args, callee):
    itv = I.deref(args[0])
    xs = iter_items(I, itv)
    n = I.concretize(args[1], 'nth')
    if n < len(xs):
        itv.fields[1] = IntV(64, itv.fields[1].v + n + 1)
        return some(xs[n])
    return none()


def m_option_map_or(I, args, callee):
    o, d, clo = args
    if o.variant in ('None', 'Err'):
        return d
    return closure_call(I, clo, [o.fields[0]])


def m_option_is_some_and(I, args, callee):
    o, clo = args
    if o.variant in ('None', 'Err'):
        return BoolV(False)
    return closure_call(I, clo, [o.fields[0]])


def m_option_or_else(I, args, callee):
    o, clo = args
    if o.variant in ('Some', 'Ok'):
        return o
    return closure_call(I, clo, [] if o.variant == 'None' else [o.fields[0]])


def m_option_or(I, args, callee):
    return args[0] if args[0].variant == 'Some' else args[1]


def m_option_ok_or(I, args, callee):
    o, e = args
    return ok(o.fields[0]) if o.variant == 'Some' else err(e)


def m_vec_insert(I, args, callee):
    v = I.deref(args[0])
    lst = I.container_list(v)
    i = I.concretize(args[1], 'insert index')
    if i > len(lst):
        I.fail('insert-oob', 'Vec::insert index out of bounds')
    lst.insert(i, args[2])
    return UNIT


def m_vec_remove(I, args, callee):
    v = I.deref(args[0])
    lst = I.container_list(v)
    i = I.conc_index(args[1], len(lst), 'Vec::remove index')
    return lst.pop(i)


def m_vec_retain(I, args, callee):
    v = I.deref(args[0])
    lst = I.container_list(v)
    keep = [x for x in lst if truthy(I, closure_call(I, args[1], [Ref(Cell(x), ())]))]
    lst[:] = keep
    return UNIT


def m_vec_append(I, args, callee):
    a, b = I.deref(args[0]), I.deref(args[1])
    I.container_list(a).extend(I.container_list(b))
    del I.container_list(b)[:]
    return UNIT


def _ite_int(I, c, a, b):
    if c.conc():
        return a if c.v else b
    return IntV(a.w, z3.If(c.v, a.z(), b.z()), a.s)


def m_int_saturating_sub(I, args, callee):
    a, b = args
    return _ite_int(I, I.binop('Lt', a, b), IntV(a.w, 0, a.s), I.binop('Sub', a, b)) if not a.s else I.binop('Sub', a, b)


def m_int_saturating_add(I, args, callee):
    a, b = args
    r = I.binop('AddWithOverflow', a, b)
    mx = IntV(a.w, (1 << (a.w - 1)) - 1 if a.s else (1 << a.w) - 1, a.s)
    return _ite_int(I, r.fields[1], mx, r.fields[0])


def m_int_min(I, args, callee):
    a, b = args
    a = I.deref(a) if isinstance(a, Ref) else a
    b = I.deref(b) if isinstance(b, Ref) else b
    return _ite_int(I, I.binop('Le', a, b), a, b)


def m_int_max(I, args, callee):
    a, b = args
    a = I.deref(a) if isinstance(a, Ref) else a
    b = I.deref(b) if isinstance(b, Ref) else b
    return _ite_int(I, I.binop('Ge', a, b), a, b)


def m_int_checked(op):
    def f(I, args, callee):
        a, b = args
        r = I.binop(op + 'WithOverflow', a, b)
        if truthy(I, r.fields[1]):
            return none()
        return some(r.fields[0])
    f.__name__ = 'm_int_checked_' + op
    return f


def m_int_wrapping(op):
    def f(I, args, callee):
        return I.binop(op, args[0], args[1])
    f.__name__ = 'm_int_wrapping_' + op
    return f


def m_int_from(I, args, callee):
    a = args[0]
    m = re.match(r'^<(\w+) as From<(\w+)>>::from$', callee)
    from .values import INT_W
    if m and m.group(1) in INT_W:
        w = INT_W[m.group(1)]
        sg = m.group(1)[0] == 'i'
        if isinstance(a, BoolV):
            return IntV(w, int(a.v), sg) if a.conc() else IntV(w, z3.If(a.v, z3.BitVecVal(1, w), z3.BitVecVal(0, w)), sg)
        if a.conc():
            return IntV(w, a.sval(), sg)
        return IntV(w, z3.SignExt(w - a.w, a.v) if a.s else z3.ZeroExt(w - a.w, a.v), sg)
    raise Unsupported(callee)


def m_refcell_new(I, args, callee):
    return Agg('RefCell', [args[0]])


def m_refcell_borrow(I, args, callee):
    """RefCell::borrow / borrow_mut / try_borrow*: a guard holding a reference to the value (single-threaded paths; the
    dynamic borrow flag is not modelled: a double mutable borrow would panic natively and is outside the models)"""
    r = args[0]
    if not isinstance(r, Ref):
        raise Unsupported('RefCell::borrow of a non-reference')
    return Agg('BorrowGuard', [Ref(r.cell, tuple(r.path) + (('f', 0),))])


def m_guard_deref(I, args, callee):
    g = I.deref(args[0]) if isinstance(args[0], Ref) else args[0]
    return g.fields[0]


def m_localkey_new(I, args, callee):
    a = args[0]
    return Opaque('LocalKey', (a.name if isinstance(a, FnRef) else str(a),))


def m_localkey_with(I, args, callee):
    """LocalKey::with: one modelled thread per path; the value is created by the key's init fn at first use"""
    key = I.deref(args[0]) if isinstance(args[0], Ref) else args[0]
    if not isinstance(key, Opaque) or key.tag != 'LocalKey':
        raise Unsupported('LocalKey::with on %r' % (key,))
    base = re.sub(r'::\{constant#\d+\}.*$', '', key.parts[0])
    cell = I.tls.get(base)
    if cell is None:
        last = base.split('::')[-1]
        init = [f for n, f in I.by_name.items() if n.endswith(last + '::__rust_std_internal_init_fn')]
        if len(init) != 1:
            raise Unsupported('thread_local initialiser of %s' % base)
        cell = Cell(I.call_fn(init[0], []))
        I.tls[base] = cell
    return I.call_closure(args[1], [Ref(cell, ())])


def m_int_try_from(I, args, callee):
    """<T as TryFrom<U>>::try_from / <U as TryInto<T>>::try_into for primitive integers: Ok(value) iff it fits"""
    a = args[0]
    m = re.match(r'^<(\w+) as TryFrom<(\w+)>>::try_from$', callee) or re.match(r'^<(\w+) as TryInto<(\w+)>>::try_into$', callee)
    from .values import INT_W
    tgt = m.group(1) if 'TryFrom' in callee else m.group(2)
    w = INT_W[tgt]
    sg = tgt[0] == 'i'
    lo, hi = (-(1 << (w - 1)), (1 << (w - 1)) - 1) if sg else (0, (1 << w) - 1)
    if a.conc():
        v = a.sval()
        return ok(IntV(w, v, sg)) if lo <= v <= hi else err(Opaque('TryFromIntError'))
    wide = max(a.w, w) + 1
    ext = z3.SignExt(wide - a.w, a.v) if a.s else z3.ZeroExt(wide - a.w, a.v)
    fits = z3.And(ext >= z3.BitVecVal(lo, wide), ext <= z3.BitVecVal(hi, wide))
    if I.branch_bool(BoolV(fits)):
        return ok(IntV(w, z3.Extract(w - 1, 0, ext), sg))
    return err(Opaque('TryFromIntError'))


def m_int_cmp(I, args, callee):
    a, b = I.deref(args[0]), I.deref(args[1])
    if isinstance(a, Agg) and len(a.fields) == 1:
        a, b = a.fields[0], b.fields[0]
    if truthy(I, I.binop('Lt', a, b)):
        return Agg('Ordering', [], 'Less')
    if truthy(I, I.binop('Eq', a, b)):
        return Agg('Ordering', [], 'Equal')
    return Agg('Ordering', [], 'Greater')


def m_vec_drain(I, args, callee):
    v = I.deref(args[0])
    lst = I.container_list(v)
    rng = args[1]
    n = len(lst)
    if rng.kind == 'RangeFull':
        a, b = 0, n
    elif rng.kind == 'Range':
        a, b = I.concretize(rng.fields[0]), I.concretize(rng.fields[1])
    elif rng.kind == 'RangeTo':
        a, b = 0, I.concretize(rng.fields[0])
    elif rng.kind == 'RangeFrom':
        a, b = I.concretize(rng.fields[0]), n
    else:
        raise Unsupported('drain ' + rng.kind)
    if not (a <= b <= n):
        I.fail('drain-oob', 'Vec::drain range out of bounds')
    items = lst[a:b]
    del lst[a:b]
    return new_iter(items)


def m_deque_front(I, args, callee):
    d = I.deref(args[0])
    if not d.fields:
        return none()
    return some(Ref(Cell(d), (('f', 0),)))


def m_deque_push_front(I, args, callee):
    I.deref(args[0]).fields.insert(0, args[1])
    return UNIT


def m_deque_pop_back(I, args, callee):
    d = I.deref(args[0])
    return some(d.fields.pop()) if d.fields else none()


def m_iter_size_hint(I, args, callee):
    n = len(_items(I, args[0]))
    return Agg('tuple', [usize(n), some(usize(n))])


def _ranges_latin1(pred):
    rs = []
    start = None
    for c in range(256):
        if pred(chr(c)):
            if start is None:
                start = c
        elif start is not None:
            rs.append((start, c - 1))
            start = None
    if start is not None:
        rs.append((start, 255))
    return rs


_CHAR_PREDS = {
    'is_alphanumeric': str.isalnum, 'is_alphabetic': str.isalpha, 'is_numeric': str.isnumeric,
    'is_whitespace': str.isspace, 'is_lowercase': str.islower, 'is_uppercase': str.isupper,
    'is_ascii_alphanumeric': lambda c: c.isascii() and c.isalnum(), 'is_ascii_alphabetic': lambda c: c.isascii() and c.isalpha(),
    'is_ascii_digit': lambda c: c in '0123456789', 'is_ascii_whitespace': lambda c: c in ' \t\n\r\x0c',
    'is_ascii_lowercase': lambda c: 'a' <= c <= 'z', 'is_ascii_uppercase': lambda c: 'A' <= c <= 'Z',
    'is_ascii_punctuation': lambda c: c.isascii() and c.isprintable() and not c.isalnum() and c != ' ',
    'is_ascii': lambda c: c.isascii(), 'is_control': lambda c: ord(c) < 32 or 127 <= ord(c) < 160,
    'is_ascii_hexdigit': lambda c: c in '0123456789abcdefABCDEF', 'is_ascii_graphic': lambda c: 33 <= ord(c) <= 126,
}


def m_char_pred(I, args, callee):
    name = callee.split('::')[-1]
    pred = _CHAR_PREDS.get(name)
    if pred is None:
        raise Unsupported(callee)
    c = I.deref(args[0]) if isinstance(args[0], Ref) else args[0]
    if c.conc():
        return BoolV(bool(pred(chr(c.v))))
    if I.check_with(z3.UGE(c.v, 256)) == z3.sat:
        raise Unsupported(callee + ' on a symbolic char beyond U+00FF')
    rs = _ranges_latin1(pred)
    return I._boolv(z3.Or([z3.And(z3.UGE(c.v, a), z3.ULE(c.v, b)) for a, b in rs])) if rs else BoolV(False)


def m_iter_repeat(I, args, callee):
    return Agg('Repeat', [args[0]])


def m_repeat_take(I, args, callee):
    rp, n = args
    k = I.concretize(n, 'repeat().take(n)', limit=400)
    return new_iter([deep_copy(rp.fields[0]) for _ in range(k)])


def m_string_extend_chars(I, args, callee):
    s_ = I.deref(args[0])
    for ch in _items(I, args[1]):
        m_string_push(I, [Ref(Cell(s_), ()), ch], callee)
    return UNIT


def m_from_utf8_lossy(I, args, callee):
    """String::from_utf8_lossy on text the harness constrains to valid UTF-8: Cow::Borrowed(text)"""
    return Agg('Cow', [as_slice(I, args[0])], 'Borrowed')


def m_cow_into_owned(I, args, callee):
    c = args[0]
    v = c.fields[0]
    if c.variant == 'Owned':
        return v
    return m_to_owned_str(I, [v], callee)


def m_slice_windows(I, args, callee):
    sl = as_slice(I, args[0])
    n = I.concretize(args[1], 'windows size')
    if n == 0:
        I.fail('windows-zero', 'slice::windows(0) panics')
    return new_iter([SliceRef(sl.cell, sl.path, sl.start + i, n) for i in range(0, max(0, sl.len - n + 1))])


def m_slice_first(I, args, callee):
    sl = as_slice(I, args[0])
    if sl.len == 0:
        return none()
    lst, start, ln = I.elems_of(sl)
    return some(Ref(Cell(Agg('view', lst)), (('f', start),)))


def m_slice_last(I, args, callee):
    sl = as_slice(I, args[0])
    if sl.len == 0:
        return none()
    lst, start, ln = I.elems_of(sl)
    return some(Ref(Cell(Agg('view', lst)), (('f', start + ln - 1),)))


def m_path_display(I, args, callee):
    return Agg('Display', [as_slice(I, args[0])])


MODELS = [
    (r'^(std::iter::)?repeat::<', m_iter_repeat),
    (r'^<(std::iter::)?Repeat<.*> as Iterator>::take$', m_repeat_take),
    (r'^<String as Extend<char>>::extend::', m_string_extend_chars),
    (r'^String::from_utf8_lossy$', m_from_utf8_lossy),
    (r'^Cow::<.*>::into_owned$', m_cow_into_owned),
    (r'^(core::)?char::methods::<impl char>::is_\w+$|^(core::)?num::<impl u8>::is_ascii\w*$', m_char_pred),
    (r' as Iterator>::size_hint$', m_iter_size_hint),
    (r'^<.* as (ExactSizeIterator)>::len$', m_iter_count),
    (r'^<impl Iterator<.*> as IntoIterator>::into_iter$', m_identity),
    (r'^<impl IntoIterator<.*> as IntoIterator>::into_iter$', m_into_iter_vec),
    (r'^<impl Iterator<.*> as Iterator>::next$', m_pyiter_next),
    # the native-replay switches patched into the scratch copy are off under M
    (r'(^|::)verif_(active|cut)$', m_false),
    (r'^Vec::<.*>::drain::', m_vec_drain),
    (r'^<std::vec::Drain<.*> as Iterator>::next$', m_pyiter_next),
    (r'^<std::vec::Drain<.*> as IntoIterator>::into_iter$', m_identity),
    (r'^VecDeque::<.*>::front$', m_deque_front),
    (r'^VecDeque::<.*>::push_front$', m_deque_push_front),
    (r'^VecDeque::<.*>::pop_back$', m_deque_pop_back),
    (r'^VecDeque::<.*>::iter(_mut)?$|^<&(mut )?VecDeque<.*> as IntoIterator>::into_iter$', m_slice_iter),
    (r'^<std::collections::vec_deque::IterMut<.*> as Iterator>::(next)$', m_slice_iter_next),
    (r'^<std::collections::vec_deque::Iter<.*> as Iterator>::next$', m_slice_iter_next),
    (r'^(core::)?num::<impl [ui](8|16|32|64|size)>::saturating_sub$', m_int_saturating_sub),
    (r'^(core::)?num::<impl [ui](8|16|32|64|size)>::saturating_add$', m_int_saturating_add),
    (r'^(core::)?num::<impl [ui](8|16|32|64|size)>::checked_sub$', m_int_checked('Sub')),
    (r'^(core::)?num::<impl [ui](8|16|32|64|size)>::checked_add$', m_int_checked('Add')),
    (r'^(core::)?num::<impl [ui](8|16|32|64|size)>::checked_mul$', m_int_checked('Mul')),
    (r'^(core::)?num::<impl [ui](8|16|32|64|size)>::wrapping_sub$', m_int_wrapping('Sub')),
    (r'^(core::)?num::<impl [ui](8|16|32|64|size)>::wrapping_add$', m_int_wrapping('Add')),
    (r'^(std::)?cmp::min::<|^<[ui](8|16|32|64|size) as Ord>::min$|^min::<[ui]', m_int_min),
    (r'^(std::)?cmp::max::<|^<[ui](8|16|32|64|size) as Ord>::max$|^max::<[ui]', m_int_max),
    (r'^<[ui](8|16|32|64|size) as From<(bool|[ui](8|16|32|64|size))>>::from$', m_int_from),
    (r'^<[ui](8|16|32|64|size) as TryFrom<[ui](8|16|32|64|size)>>::try_from$|^<[ui](8|16|32|64|size) as TryInto<[ui](8|16|32|64|size)>>::try_into$', m_int_try_from),
    (r'^<[ui](8|16|32|64|size) as (Ord|PartialOrd)>::(cmp|partial_cmp)$', m_int_cmp),
    (r'^<.* as Iterator>::filter_map::', m_iter_filter_map),
    (r'^<.* as Iterator>::filter::', m_iter_filter),
    (r'^<.* as Iterator>::all::', m_iter_all),
    (r'^<.* as Iterator>::find_map::', m_iter_find_map),
    (r'^<.* as Iterator>::(cloned|copied)::', m_iter_cloned),
    (r'^<.* as Iterator>::rev$', m_iter_rev),
    (r'^<.* as Iterator>::skip$', m_iter_skip),
    (r'^<.* as Iterator>::count$', m_iter_count),
    (r'^<.* as Iterator>::last$', m_iter_last),
    (r'^<.* as Iterator>::zip::', m_iter_zip),
    (r'^<.* as Iterator>::for_each::', m_iter_for_each),
    (r'^<.* as Iterator>::fold::', m_iter_fold),
    (r'^<.* as Iterator>::nth$', m_iter_nth),
    (r'^<(std::iter::)?(FilterMap|Filter|Cloned|Copied|Rev|Skip|Zip)<.*> as Iterator>::next$', m_pyiter_next),
    (r'^<(std::iter::)?(FilterMap|Filter|Cloned|Copied|Rev|Skip|Zip)<.*> as IntoIterator>::into_iter$', m_identity),
    (r'^(Option|Result)::<.*>::map_or::', m_option_map_or),
    (r'^(Option|Result)::<.*>::(is_some_and|is_ok_and)::', m_option_is_some_and),
    (r'^Option::<.*>::or$', m_option_or),
    (r'^(Option|Result)::<.*>::or_else::', m_option_or_else),
    (r'^Option::<.*>::ok_or$', m_option_ok_or),
    (r'^Vec::<.*>::insert$', m_vec_insert),
    (r'^Vec::<.*>::remove$', m_vec_remove),
    (r'^Vec::<.*>::retain::', m_vec_retain),
    (r'^Vec::<.*>::append$', m_vec_append),
    (r'^(core::)?slice::<impl \[.*\]>::windows$', m_slice_windows),
    (r'^<(std::slice::)?Windows<.*> as Iterator>::(next)$', m_pyiter_next),
    (r'^(core::)?slice::<impl \[.*\]>::first$', m_slice_first),
    (r'^(core::)?slice::<impl \[.*\]>::last$', m_slice_last),
    (r'^(core::)?slice::<impl \[.*\]>::sort(_unstable)?$', m_slice_sort),
    (r'^Vec::<.*>::dedup$', m_vec_dedup),
    (r'^Path::display$|^PathBuf::display$', m_path_display),
    # panics
    (r'^std::rt::panic_fmt$|^core::panicking::panic_fmt$|^std::rt::begin_panic|^panic_fmt$', m_panic),
    (r'^core::panicking::|^panic_cold_explicit$|^std::process::abort$|^panic_cold_display', m_panic_str),
    (r'^unreachable_display|^core::option::unwrap_failed|^core::result::unwrap_failed', m_panic_str),
    # fmt
    (r'^Arguments::<.*>::(new|from_str|new_const|new_v1)', m_fmt_args),
    (r'^core::fmt::rt::Argument::|^Argument::<.*>::new_', m_fmt_arg),
    (r'^core::fmt::rt::(Placeholder|Count|UnsafeArg)', m_opaque('fmtmisc')),
    (r'^format$|^std::fmt::format$|^alloc::fmt::format$|^fmt::format$|format::\{closure', m_format),
    (r'^must_use::', m_identity),
    (r'^anyhow::|anyhow::kind::|^<.* as anyhow::kind::|^anyhow::__private::', m_anyhow),
    (r'^<.* as ToString>::to_string$', m_to_string),
    # Try
    (r' as Try>::branch$', m_try_branch),
    (r' as FromResidual<.*>>::from_residual$', m_from_residual),
    # Option / Result
    (r'^Option::<.*>::is_none$', m_option_is('None')),
    (r'^Option::<.*>::is_some$', m_option_is('Some')),
    (r'^Result::<.*>::is_ok$', m_option_is('Ok')),
    (r'^Result::<.*>::is_err$', m_option_is('Err')),
    (r'^(Option|Result)::<.*>::(unwrap|expect)$', m_unwrap),
    (r'^(Option|Result)::<.*>::unwrap_or$', m_unwrap_or),
    (r'^(Option|Result)::<.*>::unwrap_or_else::', m_unwrap_or_else),
    (r'^(Option|Result)::<.*>::unwrap_or_default$', m_unwrap_or_default),
    (r'^Option::<.*>::map::', m_option_map),
    (r'^Option::<.*>::and_then::', m_option_and_then),
    (r'^Option::<.*>::filter::', m_option_filter),
    (r'^Option::<.*>::ok_or_else::', m_ok_or_else),
    (r'^Option::<.*>::as_ref$', m_option_as_ref),
    (r'^Option::<.*>::as_deref$', m_option_as_deref),
    (r'^Option::<.*>::(copied|cloned)$', m_option_copied),
    (r'^Option::<.*>::take$', m_option_take),
    (r'^Option::<.*>::replace$', m_option_replace),
    (r'^Result::<.*>::map::', m_result_map),
    (r'^Result::<.*>::map_err::', m_result_map_err),
    (r'^Result::<.*>::ok$', m_result_ok),
    (r'^std::mem::replace::', m_replace),
    (r'^std::mem::take::', m_mem_take),
    (r'^<.* as Default>::default$', m_default),
    # unchecked / unsafe
    (r'get_unchecked(_mut)?::<', m_get_unchecked),
    (r'^from_utf8_unchecked$|^std::str::from_utf8_unchecked$|^core::str::from_utf8_unchecked$', m_identity),
    (r'^String::from_utf8_unchecked$', m_string_from_utf8_unchecked),
    (r'^String::as_mut_vec$', m_as_mut_vec),
    (r'^Vec::<.*>::set_len$', m_vec_set_len),
    (r'^assert_unchecked$|^std::hint::assert_unchecked$', m_assert_unchecked),
    (r'^MaybeUninit::<.*>::uninit$', m_maybeuninit_uninit),
    (r'^MaybeUninit::<.*>::write$', m_maybeuninit_write),
    (r'^MaybeUninit::<.*>::assume_init$', m_maybeuninit_assume_init),
    # slices / Vec
    (r'^(core::)?slice::<impl \[.*\]>::get::<(usize|(std::ops::|core::ops::)?Range(From|To|Full|Inclusive)?(<usize>)?)>$', m_slice_get),
    (r'^<(\[.*\]|Vec<.*>|str|String|\[.*; \d+\]) as (std::ops::)?Index(Mut)?<.*>>::index(_mut)?$', m_slice_index),
    (r'^(core::)?str::<impl str>::is_char_boundary$', m_is_char_boundary),
    (r'^Vec::<.*>::new$', m_vec_new),
    (r'^Vec::<.*>::with_capacity$', m_vec_with_capacity),
    (r'^Vec::<.*>::push$', m_vec_push),
    (r'^Vec::<.*>::pop$', m_vec_pop),
    (r'^(Vec::<.*>|String)::clear$', m_vec_clear),
    (r'^(Vec::<.*>|String|VecDeque::<.*>)::len$|^(core::)?str::<impl str>::len$|^(core::)?slice::<impl \[.*\]>::len$', m_len),
    (r'^(Vec::<.*>|String|VecDeque::<.*>)::is_empty$|^(core::)?str::<impl str>::is_empty$|^(core::)?slice::<impl \[.*\]>::is_empty$', m_is_empty),
    (r'^(Vec::<.*>|String)::reserve$', m_unit),
    (r'^Vec::<.*>::extend_from_slice$', m_extend_from_slice),
    (r'^<Vec<.*> as Extend<.*>>::extend::', m_vec_extend),
    (r'^Vec::<.*>::truncate$', m_vec_truncate),
    (r'^Vec::<.*>::resize$', m_vec_resize),
    (r'^std::vec::from_elem::', m_from_elem),
    (r'^Vec::<.*>::as_mut_slice$|^Vec::<.*>::as_slice$', m_deref_slice),
    (r'^<((std::vec::)?Vec<.*>|(std::string::)?String) as Deref(Mut)?>::deref(_mut)?$', m_deref_slice),
    (r'^(core::)?slice::<impl \[.*\]>::to_vec$', m_to_vec),
    (r'^(core::)?slice::<impl \[.*\]>::contains$', m_vec_contains),
    (r'^(core::)?slice::<impl \[.*\]>::iter(_mut)?$', m_slice_iter),
    (r'^<std::slice::Iter(Mut)?<.*> as Iterator>::next$', m_slice_iter_next),
    (r'^<std::slice::Iter(Mut)?<.*> as IntoIterator>::into_iter$', m_identity),
    (r'^<&(mut )?(\[.*\]|Vec<.*>) as IntoIterator>::into_iter$', m_slice_iter),
    (r'^<(Vec<.*>|\[.*; \d+\]) as IntoIterator>::into_iter$', m_into_iter_vec),
    (r'^<std::vec::IntoIter<.*> as Iterator>::next$|^<std::array::IntoIter<.*> as Iterator>::next$', m_pyiter_next),
    (r'^<.* as Iterator>::enumerate$', m_iter_enumerate),
    (r'^<.* as Iterator>::map::', m_iter_map),
    (r'^<.* as Iterator>::take$', m_iter_take),
    (r'^<.* as Iterator>::chain::', m_iter_chain),
    (r'^<.* as Iterator>::collect::', m_iter_collect),
    (r'^<.* as Iterator>::position::', m_iter_position),
    (r'^<.* as (DoubleEndedIterator|Iterator)>::rposition::', m_iter_rposition),
    (r'^<.* as Iterator>::any::', m_iter_any),
    (r'^<.* as Iterator>::find::', m_iter_find),
    (r'^<.* as Iterator>::sum::', m_iter_sum),
    (r'^<.* as Iterator>::flat_map::', m_iter_flat_map),
    (r'^<(std::iter::)?(Enumerate|Map|Take|Chain|FlatMap|Split|std::slice::Split)<.*> as Iterator>::next$', m_pyiter_next),
    (r'^<(std::iter::)?(Enumerate|Map|Take|Chain|FlatMap|Split|std::slice::Split)<.*> as IntoIterator>::into_iter$', m_identity),
    (r'^<std::ops::Range<.*> as IntoIterator>::into_iter$', m_range_into_iter),
    (r'^<std::ops::Range<.*> as Iterator>::next$', m_range_next),
    (r'^(core::)?slice::<impl \[.*\]>::split::', m_slice_split),
    (r'^(core::)?slice::<impl \[.*\]>::ends_with$', m_ends_with),
    (r'^(core::)?slice::<impl \[.*\]>::starts_with$', m_starts_with),
    (r'^(core::)?slice::<impl \[.*\]>::strip_prefix::', m_strip_prefix),
    (r'^(core::)?str::<impl str>::strip_suffix::<char>$', m_strip_suffix_char),
    (r'^(core::)?slice::<impl \[.*\]>::copy_within::', m_copy_within),
    (r'^array::<impl \[.*; \d+\]>::as_slice$|^core::array::<impl \[.*; \d+\]>::as_slice$', m_array_as_slice),
    (r'^(core::)?str::<impl str>::as_bytes$|^String::as_bytes$|^String::as_str$|^String::as_mut_str$', m_deref_slice),
    # String / str
    (r'^String::new$', m_string_new),
    (r'^String::with_capacity$', m_string_new),
    (r'^String::push_str$', m_string_push_str),
    (r'^String::push$', m_string_push),
    (r'^String::truncate$', m_string_truncate),
    (r'^<String as From<&str>>::from$|^<str as ToOwned>::to_owned$|^(core::)?str::<impl str>::to_owned$|^<String as From<&String>>::from$', m_string_from_str),
    (r'^<str as ToString>::to_string$|^<String as ToString>::to_string$', m_string_from_str),
    (r'^<\[.*\] as ToOwned>::to_owned$', m_to_vec),
    (r'^<.* as Into<String>>::into$|^<String as From<String>>::from$', m_into_string),
    (r'^<&str as Into<String>>::into$', m_string_from_str),
    (r'^(core::)?str::<impl str>::repeat$', m_str_repeat),
    (r'^(core::)?str::<impl str>::parse::<usize>$', m_str_parse_usize),
    (r'^<(String|str|&str|Cow<.*>) as AsRef<str>>::as_ref$|^<T as AsRef<str>>::as_ref$', m_as_ref_str),
    (r'^<(String|&str|str) as Borrow<str>>::borrow$|^<K as Borrow<str>>::borrow$', m_borrow_str),
    (r'^<Cow<.*> as Deref>::deref$', m_cow_deref),
    # eq / clone
    (r' as PartialEq(<.*>)?>::eq$', m_partial_eq),
    (r' as PartialEq(<.*>)?>::ne$', m_partial_ne),
    (r'^<Rc<.*> as Clone>::clone$', m_rc_clone),
    (r'^<.* as Clone>::clone$', m_clone),
    # ints
    (r'::<impl u(16|32|64)>::to_le_bytes$|^u(16|32|64)::to_le_bytes$', m_to_le),
    (r'::<impl u(16|32|64)>::from_le_bytes$|^u(16|32|64)::from_le_bytes$', m_from_le),
    # maps
    (r'^(std::collections::)?HashMap::<.*>::new$|^<(std::collections::)?HashMap<.*> as Default>::default$', m_map_new('HashMap')),
    (r'^(std::collections::)?HashSet::<.*>::new$', m_map_new('HashSet')),
    (r'^(std::collections::)?HashMap::<.*>::get::', m_hm_get),
    (r'^(std::collections::)?HashMap::<.*>::contains_key::', m_hm_contains_key),
    (r'^(std::collections::)?HashMap::<.*>::insert$', m_hm_insert),
    (r'^(std::collections::)?HashMap::<.*>::entry$', m_hm_entry),
    (r'OccupiedEntry::<.*>::get$', m_occupied_get),
    (r'VacantEntry::<.*>::key$', m_vacant_key),
    (r'VacantEntry::<.*>::insert$', m_vacant_insert),
    (r'^(std::collections::)?HashSet::<.*>::insert$', m_hs_insert),
    (r'^(std::collections::)?HashSet::<.*>::contains::', m_hs_contains),
    (r'^(std::collections::)?HashSet::<.*>::remove::', m_hs_remove),
    (r'^(std::collections::)?(HashSet|HashMap)::<.*>::len$', m_len),
    (r'^(std::collections::)?(HashSet|HashMap)::<.*>::is_empty$', m_is_empty),
    (r'^(std::collections::)?HashSet::<.*>::iter$|^<&(std::collections::)?HashSet<.*> as IntoIterator>::into_iter$', m_hs_iter),
    (r'^(std::collections::)?HashMap::<.*>::remove::', m_hm_remove),
    (r'^(std::collections::)?HashMap::<.*>::values$', m_hm_values),
    (r'^(std::collections::)?HashMap::<.*>::keys$', m_hm_keys),
    (r'^<(std::collections::)?HashSet<.*> as IntoIterator>::into_iter$', m_hs_into_iter),
    (r'^<std::collections::hash_set::IntoIter<.*> as Iterator>::next$', m_pyiter_next),
    (r'^<&(std::collections::)?HashMap<.*> as IntoIterator>::into_iter$|^(std::collections::)?HashMap::<.*>::iter$', m_hm_iter),
    (r'^<std::collections::hash_map::Iter<.*> as Iterator>::next$', m_pyiter_next),
    # VecDeque
    (r'^VecDeque::<.*>::new$', m_map_new('VecDeque')),
    (r'^VecDeque::<.*>::push_back$', m_push_back),
    (r'^VecDeque::<.*>::pop_front$', m_pop_front),
    # Rc / Box / paths
    (r'^Rc::<.*>::new$', m_rc_new),
    (r'^(std::cell::)?RefCell::<.*>::new$', m_refcell_new),
    (r'^(std::cell::)?RefCell::<.*>::(borrow|borrow_mut)$', m_refcell_borrow),
    (r'^<(std::cell::)?(Ref|RefMut)<.*> as (Deref|DerefMut)>::(deref|deref_mut)$', m_guard_deref),
    (r'^(std::thread::)?LocalKey::<.*>::new$', m_localkey_new),
    (r'^(std::thread::)?LocalKey::<.*>::with::<', m_localkey_with),
    (r'^<Rc<.*> as Deref>::deref$', m_rc_deref),
    (r'^<Rc<.*> as Clone>::clone$', m_rc_clone),
    (r'^Box::<.*>::new$', m_box_new),
    (r'^Box::<.*>::new_uninit$', m_box_new_uninit),
    (r'box_assume_init_into_vec_unsafe::', m_box_into_vec),
    (r'^Path::to_path_buf$', m_path_to_path_buf),
    (r'^<std::vec::IntoIter<.*> as IntoIterator>::into_iter$', m_identity),
    (r'^<PathBuf as From<String>>::from$|^<PathBuf as From<&str>>::from$|^PathBuf::from$', m_pathbuf_from),
    (r'^Path::new::<.*>$', m_path_new),
    (r'^<PathBuf as Deref>::deref$|^PathBuf::as_path$|^<PathBuf as AsRef<Path>>::as_ref$|^<Path as AsRef<Path>>::as_ref$', m_deref_slice),
    # last resort for iterator plumbing over our own iterator representations
    (r' as IntoIterator>::into_iter$', m_into_iter_vec),
    (r' as Iterator>::next$', m_pyiter_next),
]
