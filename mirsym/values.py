"""Value domain of mirsym: scalars are z3 terms or Python constants; aggregates, references and
containers are interpreter objects whose SHAPE is concrete on every path and whose leaves may be symbolic."""
import z3


class IntV:
    __slots__ = ('w', 'v', 's')

    def __init__(self, w, v, s=False):
        self.w = w
        self.s = s
        if isinstance(v, int):
            v &= (1 << w) - 1
        self.v = v

    def conc(self):
        return isinstance(self.v, int)

    def z(self):
        return z3.BitVecVal(self.v, self.w) if isinstance(self.v, int) else self.v

    def sval(self):
        """concrete value read as signed if the type is signed"""
        v = self.v
        if self.s and v >= (1 << (self.w - 1)):
            v -= 1 << self.w
        return v

    def __repr__(self):
        return '%s:%s%d' % (self.v, 'i' if self.s else 'u', self.w)


class BoolV:
    __slots__ = ('v',)

    def __init__(self, v):
        self.v = v  # python bool or z3 Bool

    def conc(self):
        return isinstance(self.v, bool)

    def z(self):
        return z3.BoolVal(self.v) if isinstance(self.v, bool) else self.v

    def __repr__(self):
        return 'B(%s)' % (self.v,)


class MathInt:
    """unbounded integer (z3 Int) - used by the integer-mode arithmetic kernels only"""
    __slots__ = ('v',)

    def __init__(self, v):
        self.v = v


class Agg:
    """struct / tuple / enum variant / array / Vec / String ...: kind + positional fields (+ variant name)"""
    __slots__ = ('kind', 'fields', 'variant', 'meta')

    def __init__(self, kind, fields, variant=None, meta=None):
        self.kind, self.fields, self.variant, self.meta = kind, fields, variant, meta

    def __repr__(self):
        return '%s%s%r' % (self.kind, '::' + str(self.variant) if self.variant is not None else '', self.fields)


class Cell:
    __slots__ = ('v',)

    def __init__(self, v=None):
        self.v = v


class Ref:
    """&T / &mut T / Box<T> target: root cell + projection path; dyn_ty is set by unsizing casts to dyn Trait"""
    __slots__ = ('cell', 'path', 'dyn_ty')

    def __init__(self, cell, path=(), dyn_ty=None):
        self.cell, self.path, self.dyn_ty = cell, path, dyn_ty

    def __repr__(self):
        return '&%r' % (self.path,)


class SliceRef:
    """&[T] / &str: window [start, start+len) into the object at (cell, path) holding .fields (a list)"""
    __slots__ = ('cell', 'path', 'start', 'len')

    def __init__(self, cell, path, start, length):
        self.cell, self.path, self.start, self.len = cell, path, start, length

    def __repr__(self):
        return '&[%d..+%d]' % (self.start, self.len)


class Opaque:
    """value the interpreter only carries around (fmt::Arguments, anyhow::Error, io::Error, PathBuf ...)"""
    __slots__ = ('tag', 'parts')

    def __init__(self, tag, parts=()):
        self.tag, self.parts = tag, parts

    def __repr__(self):
        return '<%s %r>' % (self.tag, self.parts) if self.parts else '<%s>' % self.tag


class FnRef:
    __slots__ = ('name',)

    def __init__(self, name):
        self.name = name

    def __repr__(self):
        return 'fn ' + self.name


class _Uninit:
    def __repr__(self):
        return 'UNINIT'


UNINIT = _Uninit()
UNIT = Agg('()', [])


class PathEnd(Exception):
    """this path is over (obligation failed, panic reached, infeasible)"""


class Unsupported(Exception):
    """construct the engine cannot interpret -> the run is INCONCLUSIVE, never a pass"""


INT_W = {'usize': 64, 'isize': 64, 'u8': 8, 'i8': 8, 'u16': 16, 'i16': 16, 'u32': 32, 'i32': 32,
         'u64': 64, 'i64': 64, 'char': 32, 'u128': 128, 'i128': 128}


# ---- constructors used by harnesses and models
def none():
    return Agg('Option', [], 'None')


def some(v):
    return Agg('Option', [v], 'Some')


def ok(v):
    return Agg('Result', [v], 'Ok')


def err(v):
    return Agg('Result', [v], 'Err')


def vec(items=()):
    return Agg('Vec', list(items))


def u8(x):
    return IntV(8, x)


def usize(x):
    return IntV(64, x)


def bytes_vec(bs):
    return Agg('Vec', [IntV(8, b) for b in bs])


def string(s):
    if isinstance(s, str):
        s = s.encode()
    return Agg('String', [bytes_vec(s)])


def string_of(byte_vals):
    """String from a list of IntV(8)"""
    return Agg('String', [Agg('Vec', list(byte_vals))])


def str_of_string(sv):
    v = sv.fields[0]
    return SliceRef(Cell(v), (), 0, len(v.fields))


def static_str(s):
    if isinstance(s, str):
        s = s.encode()
    obj = Agg('bytes', [IntV(8, b) for b in s])
    return SliceRef(Cell(obj), (), 0, len(s))


def tuple_(*xs):
    return Agg('tuple', list(xs))


def deep_copy(v):
    if isinstance(v, Agg):
        return Agg(v.kind, [deep_copy(x) for x in v.fields], v.variant, v.meta)
    return v
