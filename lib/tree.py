"""Scratch copies of /repo's *current working tree* with the verification hooks injected.

Nothing is committed to /repo: the hooks are one `include!` line appended to each module of the
scratch copy (guard: cfg(any(kani, n2_verif))), so harnesses, reference models and the native
facade live *inside* the module they exercise and see its private items.

A scratch tree is keyed by the hash of (/repo sources, /verif/hooks) and kept under $N2VERIF_TMP
(default /tmp/n2verif) so that the MIR dump, the native replay binary and the Kani build are made
once per source state and shared by the checks of one run; it is rebuilt from /repo whenever it is
absent, and old trees are evicted.  Nothing a registered command needs has to pre-exist there.
"""
import fcntl
import hashlib
import os
import re
import shutil
import subprocess
import time

VERIF = os.path.dirname(os.path.dirname(os.path.abspath(__file__)))
REPO = os.environ.get('N2_REPO', '/repo')
TMP = os.environ.get('N2VERIF_TMP', '/tmp/n2verif')
KEEP = 3

MODULES = ['canon', 'scanner', 'parse', 'depfile', 'eval', 'load', 'graph', 'db', 'hash', 'work',
           'task', 'run', 'progress_fancy', 'process_posix', 'smallmap', 'densemap']

ENV = dict(os.environ, CARGO_NET_OFFLINE='true', CARGO_TERM_COLOR='never')


class Inconclusive(Exception):
    """machinery could not decide (build failure, unmodelled construct, timeout...) -> exit 2"""


def _files():
    out = []
    for root in (os.path.join(REPO, 'src'), os.path.join(VERIF, 'hooks')):
        for dp, dn, fn in os.walk(root):
            dn.sort()
            for f in sorted(fn):
                out.append(os.path.join(dp, f))
    out += [os.path.join(REPO, 'Cargo.toml'), os.path.join(REPO, 'Cargo.lock')]
    return out


def source_hash():
    h = hashlib.sha256()
    for p in _files():
        h.update(p.encode())
        with open(p, 'rb') as f:
            h.update(f.read())
    return h.hexdigest()[:16]


class Tree:
    def __init__(self, path, key):
        self.path = path
        self.key = key

    # ---- locking helpers
    def _lock(self, name):
        f = open(os.path.join(self.path, '.lock-' + name), 'w')
        fcntl.flock(f, fcntl.LOCK_EX)
        return f

    def src(self, rel):
        return os.path.join(self.path, 'src', rel)

    # ---- MIR dumps
    def mir(self):
        """returns (plain dump path, span dump path); cfg n2_verif on, so spec_* fns are included"""
        plain = os.path.join(self.path, 'n2.mir')
        spans = os.path.join(self.path, 'n2s.mir')
        with self._lock('mir'):
            if os.path.exists(plain + '.ok') and os.path.exists(spans + '.ok'):
                return plain, spans
            for out, extra in ((plain, []), (spans, ['-Zmir-include-spans=on'])):
                os.utime(self.src('lib.rs'))
                cmd = ['cargo', '+nightly', 'rustc', '--offline', '--lib', '--no-default-features',
                       '--target-dir', os.path.join(self.path, 'target-mir'), '--',
                       '-Zunpretty=mir', '-C', 'debug-assertions=off', '-C', 'overflow-checks=on',
                       '--cfg', 'n2_verif', '-Awarnings'] + extra
                r = subprocess.run(cmd, cwd=self.path, env=ENV, stdout=open(out, 'w'),
                                   stderr=subprocess.PIPE, text=True)
                if r.returncode != 0 or os.path.getsize(out) < 1000:
                    raise Inconclusive('MIR dump failed:\n' + r.stderr[-3000:])
                open(out + '.ok', 'w').close()
        return plain, spans

    # ---- native replay binary (dev profile; release on demand)
    def replay_bin(self, release=False):
        prof = 'release' if release else 'debug'
        tdir = os.path.join(self.path, 'target-native')
        binp = os.path.join(tdir, prof, 'n2verif_replay')
        with self._lock('native-' + prof):
            if os.path.exists(binp + '.ok'):
                return binp
            env = dict(ENV, RUSTFLAGS='--cfg n2_verif -Awarnings')
            cmd = ['cargo', 'build', '--offline', '--no-default-features', '--bin', 'n2verif_replay',
                   '--bin', 'n2', '--target-dir', tdir] + (['--release'] if release else [])
            r = subprocess.run(cmd, cwd=self.path, env=env, stdout=subprocess.PIPE,
                               stderr=subprocess.STDOUT, text=True)
            if r.returncode != 0:
                raise Inconclusive('native hook build failed:\n' + r.stdout[-4000:])
            open(binp + '.ok', 'w').close()
        return binp

    def n2_bin(self):
        self.replay_bin()
        return os.path.join(self.path, 'target-native', 'debug', 'n2')


def _inject(dst):
    for m in MODULES:
        hook = os.path.join(VERIF, 'hooks', m + '.rs')
        srcf = os.path.join(dst, 'src', m + '.rs')
        if not os.path.exists(hook) or not os.path.exists(srcf):
            continue
        with open(srcf, 'a') as f:
            f.write('\n#[cfg(any(kani, n2_verif))]\ninclude!("%s");\n' % hook)
    lib = os.path.join(VERIF, 'hooks', 'lib.rs')
    if os.path.exists(lib):
        with open(os.path.join(dst, 'src', 'lib.rs'), 'a') as f:
            f.write('\n#[cfg(n2_verif)]\ninclude!("%s");\n' % lib)
    rb = os.path.join(VERIF, 'hooks', 'replay_main.rs')
    if os.path.exists(rb):
        os.makedirs(os.path.join(dst, 'src', 'bin'), exist_ok=True)
        shutil.copy(rb, os.path.join(dst, 'src', 'bin', 'n2verif_replay.rs'))
    # text patches (cfg-gated early returns) that cannot be expressed as an appended include
    pt = os.path.join(VERIF, 'hooks', 'patches.py')
    if os.path.exists(pt):
        ns = {}
        exec(open(pt).read(), ns)
        ns['apply'](dst)


def _evict():
    try:
        ents = [os.path.join(TMP, d) for d in os.listdir(TMP) if re.fullmatch(r'[0-9a-f]{16}', d)]
    except FileNotFoundError:
        return
    ents.sort(key=lambda p: os.path.getmtime(p), reverse=True)
    for p in ents[KEEP:]:
        # never remove a tree somebody holds a lock on
        try:
            lf = open(p + '.lock', 'w')
            fcntl.flock(lf, fcntl.LOCK_EX | fcntl.LOCK_NB)
        except OSError:
            continue
        shutil.rmtree(p, ignore_errors=True)
        try:
            os.unlink(p + '.lock')
        except OSError:
            pass
        lf.close()


_held = []


def get_tree():
    """scratch copy of the current /repo working tree + hooks; shared lock held for process lifetime"""
    os.makedirs(TMP, exist_ok=True)
    key = source_hash()
    path = os.path.join(TMP, key)
    glock = open(os.path.join(TMP, '.global.lock'), 'w')
    fcntl.flock(glock, fcntl.LOCK_EX)
    try:
        if not os.path.exists(os.path.join(path, '.ready')):
            shutil.rmtree(path, ignore_errors=True)
            os.makedirs(path)
            shutil.copytree(os.path.join(REPO, 'src'), os.path.join(path, 'src'))
            for f in ('Cargo.toml', 'Cargo.lock'):
                shutil.copy(os.path.join(REPO, f), os.path.join(path, f))
            # benches/tests are named in Cargo.toml ([[bench]]); keep cargo happy without copying them
            for d in ('benches', 'tests'):
                if os.path.isdir(os.path.join(REPO, d)):
                    shutil.copytree(os.path.join(REPO, d), os.path.join(path, d))
            _inject(path)
            open(os.path.join(path, '.ready'), 'w').close()
        os.utime(path)
        lf = open(path + '.lock', 'w')
        fcntl.flock(lf, fcntl.LOCK_SH)
        _held.append(lf)
        _evict()
    finally:
        fcntl.flock(glock, fcntl.LOCK_UN)
        glock.close()
    return Tree(path, key)
