"""Engine K: run #[kani::proof] harnesses (hooks/<module>.rs, compiled inside the n2 modules of the
scratch copy of the current /repo tree) with Kani 0.68 / CBMC 6.11, default solver (cadical).

A harness result is PASS only when Kani prints `VERIFICATION:- SUCCESSFUL`, reports 0 failed checks,
the unwinding assertions hold and every kani::cover! is SATISFIED (reachability witness).
FAILED with a failed property is a counterexample (the failed check descriptions are returned);
timeout / out of memory / tool error are INCONCLUSIVE.
"""
import os
import re
import resource
import subprocess
import time
from concurrent.futures import ThreadPoolExecutor

from .tree import ENV, Inconclusive


def _limits(mem_gb):
    def f():
        lim = int(mem_gb * (1 << 30))
        resource.setrlimit(resource.RLIMIT_AS, (lim, lim))
        os.setsid()
    return f


def _cmd(tree, harness, extra=()):
    return ['cargo', 'kani', '--no-default-features', '-Z', 'stubbing',
            '--target-dir', os.path.join(tree.path, 'target-kani'),
            '--harness', harness, '--exact'] + list(extra)


class KResult:
    def __init__(self, harness):
        self.harness = harness
        self.status = 'INCONCLUSIVE'
        self.reason = ''
        self.failed = []       # failed check descriptions
        self.checks = 0
        self.covers_sat = 0
        self.covers_total = 0
        self.time = 0.0
        self.solver_time = 0.0
        self.log = ''

    def to_json(self):
        return {'harness': self.harness, 'status': self.status, 'reason': self.reason, 'checks': self.checks,
                'failed_checks': self.failed[:10], 'covers': '%d/%d' % (self.covers_sat, self.covers_total),
                'wall_s': round(self.time, 1), 'solver_s': round(self.solver_time, 1)}


def parse(res, out, rc):
    res.log = out
    m = re.search(r'\*\* (\d+) of (\d+) failed', out)
    if m:
        res.checks = int(m.group(2))
    m = re.search(r'\*\* (\d+) of (\d+) cover properties satisfied', out)
    if m:
        res.covers_sat, res.covers_total = int(m.group(1)), int(m.group(2))
    for m in re.finditer(r'Runtime decision procedure: ([\d.]+)s', out):
        res.solver_time += float(m.group(1))
    failed = []
    cur = None
    for line in out.split('\n'):
        mm = re.match(r'^Check \d+: (.*)$', line)
        if mm:
            cur = {'check': mm.group(1)}
            continue
        if cur is not None:
            mm = re.match(r'^\s+- (Status|Description|Location): (.*)$', line)
            if mm:
                cur[mm.group(1)] = mm.group(2)
                if mm.group(1) == 'Location':
                    if cur.get('Status') == 'FAILURE':
                        failed.append('%s @ %s' % (cur.get('Description', '?'), cur.get('Location', '?')))
                    cur = None
    # the "Failed Checks:" summary is shorter and always present on failure
    for mm in re.finditer(r'^Failed Checks: (.*)\n File: "([^"]*)", line (\d+)', out, re.M):
        d = '%s @ %s:%s' % (mm.group(1), mm.group(2), mm.group(3))
        if d not in failed:
            failed.append(d)
    res.failed = failed
    if 'VERIFICATION:- SUCCESSFUL' in out and rc == 0:
        if res.covers_total and res.covers_sat < res.covers_total:
            res.status = 'INCONCLUSIVE'
            res.reason = 'vacuous: cover property not satisfied'
        else:
            res.status = 'PASS'
    elif 'VERIFICATION:- FAILED' in out and 'encountered no panics' in out:
        res.status = 'FAIL'
        res.failed = ['the expected panic did not occur (should_panic harness returned normally)']
    elif 'VERIFICATION:- FAILED' in out:
        if re.search(r'out of memory|Status: ERROR|std::bad_alloc|Killed', out) and not failed:
            res.reason = 'out of memory / tool error'
        elif any('unwinding assertion' in f for f in failed) and all('unwinding' in f for f in failed):
            res.status = 'INCONCLUSIVE'
            res.reason = 'unwinding bound too small'
        elif failed:
            res.status = 'FAIL'
        else:
            res.reason = 'FAILED without a failed check (tool error)'
    else:
        res.reason = 'no verdict (rc=%s): %s' % (rc, out[-400:].replace('\n', ' | '))
    return res


def warmup(tree):
    """compile once so that parallel per-harness runs find the build done"""
    stamp = os.path.join(tree.path, '.kani-built')
    with tree._lock('kani-build'):
        if os.path.exists(stamp):
            return
        cmd = ['cargo', 'kani', '--no-default-features', '-Z', 'stubbing', '--only-codegen',
               '--target-dir', os.path.join(tree.path, 'target-kani')]
        r = subprocess.run(cmd, cwd=tree.path, env=ENV, stdout=subprocess.PIPE, stderr=subprocess.STDOUT, text=True)
        if r.returncode != 0:
            raise Inconclusive('kani build failed:\n' + r.stdout[-4000:])
        open(stamp, 'w').close()


def run_one(tree, harness, timeout, mem_gb=12, extra=()):
    res = KResult(harness)
    t0 = time.time()
    try:
        p = subprocess.Popen(_cmd(tree, harness, extra), cwd=tree.path, env=ENV, stdout=subprocess.PIPE,
                             stderr=subprocess.STDOUT, text=True, preexec_fn=_limits(mem_gb))
        try:
            out, _ = p.communicate(timeout=timeout)
        except subprocess.TimeoutExpired:
            import signal
            os.killpg(p.pid, signal.SIGKILL)
            out, _ = p.communicate()
            res.time = time.time() - t0
            res.reason = 'timeout after %ds' % timeout
            res.log = out
            return res
        res.time = time.time() - t0
        return parse(res, out, p.returncode)
    except Exception as e:  # noqa
        res.reason = 'runner error: %r' % (e,)
        res.time = time.time() - t0
        return res


def run_many(tree, harnesses, timeout, jobs=8, mem_gb=12):
    warmup(tree)
    with ThreadPoolExecutor(max_workers=jobs) as ex:
        return list(ex.map(lambda h: run_one(tree, h, timeout, mem_gb), harnesses))


def playback(tree, harness, timeout=600):
    """concrete values of a failing harness (kani concrete playback, printed as a unit test)"""
    r = run_one(tree, harness, timeout, extra=['-Z', 'concrete-playback', '--concrete-playback=print'])
    m = re.search(r'```\n(.*?)```', r.log, re.S)
    return m.group(1) if m else None


def replay_native(tree, harness, timeout=900):
    """Kani concrete playback: re-run the failing harness as an ordinary native test with the solver's
    values (dev profile).  Returns (reproduced: bool|None, detail).  The playback test is compiled in a
    private copy of the scratch tree so that the shared tree is not rebuilt under other checks."""
    import shutil
    r = run_one(tree, harness, timeout, extra=['-Z', 'concrete-playback', '--concrete-playback=print'])
    m = re.search(r'```\n(.*?)```', r.log, re.S)
    if not m:
        return None, 'no concrete playback produced'
    test = m.group(1)
    tm = re.search(r'fn (kani_concrete_playback_\w+)', test)
    module = harness.split('::')[0]
    pb = os.path.join(tree.path, 'pb-' + re.sub(r'\W', '_', harness))
    shutil.rmtree(pb, ignore_errors=True)
    try:
        os.makedirs(pb)
        shutil.copytree(os.path.join(tree.path, 'src'), os.path.join(pb, 'src'))
        for f in ('Cargo.toml', 'Cargo.lock'):
            shutil.copy(os.path.join(tree.path, f), os.path.join(pb, f))
        for d in ('benches', 'tests'):
            if os.path.isdir(os.path.join(tree.path, d)):
                shutil.copytree(os.path.join(tree.path, d), os.path.join(pb, d))
        with open(os.path.join(pb, 'src', module + '.rs'), 'a') as f:
            f.write('\n#[cfg(kani)]\nmod verif_playback {\n    use super::verif_kani::*;\n%s\n}\n' % test)
        cmd = ['cargo', 'kani', 'playback', '-Z', 'concrete-playback', '--no-default-features', '--', tm.group(1)]
        p = subprocess.run(cmd, cwd=pb, env=ENV, stdout=subprocess.PIPE, stderr=subprocess.STDOUT, text=True,
                           timeout=timeout)
        out = p.stdout
        if re.search(r'test result: FAILED|panicked at', out):
            mm = re.search(r"panicked at ([^\n]*\n[^\n]*)", out)
            return True, (mm.group(1).replace('\n', ' ') if mm else 'native test failed') + ' | values: ' + \
                re.sub(r'\s+', ' ', re.search(r'vec!\[(.*)\];', test, re.S).group(1))[:300]
        if 'test result: ok' in out:
            return False, 'native playback passed'
        return None, 'playback did not run: ' + out[-600:]
    finally:
        shutil.rmtree(pb, ignore_errors=True)
