"""Shared glue for checks decided (partly) by engine K."""
import re

from . import kani
from .driver import Violation


def family(h):
    return re.sub(r'_\d+$', '', h.split('::')[-1])


def run_k(ctx, out, harnesses, timeout, jobs=None, mem_gb=12):
    """runs harnesses; FAIL -> native playback -> Violation; returns list of result dicts for evidence"""
    import os
    if os.environ.get('VERIF_DEV_SKIP_K'):   # development aid only: never set by registered commands
        out.inconclusive.append('K harnesses skipped (VERIF_DEV_SKIP_K)')
        return []
    results = kani.run_many(ctx.tree, harnesses, timeout, jobs=jobs or min(8, ctx.jobs), mem_gb=mem_gb)
    summary = []
    # failing harnesses of one family (same obligations, growing size) are confirmed by the concrete playback of the
    # smallest failing instance only - each playback is another full cargo-kani run - and the families run in parallel
    def size(h):
        m = re.search(r'_(\d+)$', h)
        return int(m.group(1)) if m else 0
    plain_fails = [r for r in results if r.status == 'FAIL' and not (r.failed and 'expected panic did not occur' in r.failed[0])]
    chosen = {}
    for r in plain_fails:
        f = family(r.harness)
        if f not in chosen or size(r.harness) < size(chosen[f].harness):
            chosen[f] = r
    playback = {}
    if chosen:
        from concurrent.futures import ThreadPoolExecutor
        with ThreadPoolExecutor(max_workers=min(len(chosen), 6)) as tp:
            futs = {f: tp.submit(kani.replay_native, ctx.tree, r.harness) for f, r in chosen.items()}
            for f, fu in futs.items():
                playback[chosen[f].harness] = fu.result()
    for r in results:
        j = r.to_json()
        if r.status == 'FAIL' and r.failed and 'expected panic did not occur' in r.failed[0]:
            # concrete should_panic harness: the harness itself is the (input-free) counterexample
            rep, detail = True, 'concrete harness returned normally'
            j['native_playback'] = {'reproduced': True, 'detail': detail}
            key = 'K:%s:no_panic' % family(r.harness)
            out.add(Violation(key, '%s: %s' % (r.harness, r.failed[0]), replay={'engine': 'kani', 'harness': r.harness}, reproduced=True))
        elif r.status == 'FAIL':
            if r.harness not in playback:
                j['native_playback'] = {'skipped': 'the smallest failing instance of this family (%s) is the one played back' % chosen[family(r.harness)].harness}
                summary.append(j)
                continue
            rep, detail = playback[r.harness]
            j['native_playback'] = {'reproduced': rep, 'detail': detail}
            what = r.failed[-1] if r.failed else 'failed check'
            what = re.sub(r' @ .*$', '', what).strip('"')
            key = 'K:%s:%s' % (family(r.harness), re.sub(r'\s+', '_', what)[:80])
            out.add(Violation(key, '%s: %s [%s]' % (r.harness, what, detail),
                              replay={'engine': 'kani', 'harness': r.harness, 'playback': detail},
                              reproduced=(rep is True)))
        elif r.status != 'PASS':
            out.inconclusive.append('%s: %s' % (r.harness, r.reason))
        summary.append(j)
    return summary
