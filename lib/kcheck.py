"""Shared glue for checks decided (partly) by engine K."""
import re

from . import kani
from .driver import Violation


def family(h):
    return re.sub(r'_\d+$', '', h.split('::')[-1])


def run_k(ctx, out, harnesses, timeout, jobs=None, mem_gb=12):
    """runs harnesses; FAIL -> native playback -> Violation; returns list of result dicts for evidence"""
    import os
    if os.environ.get('VERIF_DEV_SKIP_K'):   # development aid only: never set by registered commands
        out.inconclusive.append('K harnesses skipped (VERIF_DEV_SKIP_K)')
        return []
    results = kani.run_many(ctx.tree, harnesses, timeout, jobs=jobs or min(8, ctx.jobs), mem_gb=mem_gb)
    summary = []
    for r in results:
        j = r.to_json()
        if r.status == 'FAIL' and r.failed and 'expected panic did not occur' in r.failed[0]:
            # concrete should_panic harness: the harness itself is the (input-free) counterexample
            rep, detail = True, 'concrete harness returned normally'
            j['native_playback'] = {'reproduced': True, 'detail': detail}
            key = 'K:%s:no_panic' % family(r.harness)
            out.add(Violation(key, '%s: %s' % (r.harness, r.failed[0]), replay={'engine': 'kani', 'harness': r.harness}, reproduced=True))
        elif r.status == 'FAIL':
            rep, detail = kani.replay_native(ctx.tree, r.harness)
            j['native_playback'] = {'reproduced': rep, 'detail': detail}
            what = r.failed[-1] if r.failed else 'failed check'
            what = re.sub(r' @ .*$', '', what).strip('"')
            key = 'K:%s:%s' % (family(r.harness), re.sub(r'\s+', '_', what)[:80])
            out.add(Violation(key, '%s: %s [%s]' % (r.harness, what, detail),
                              replay={'engine': 'kani', 'harness': r.harness, 'playback': detail},
                              reproduced=(rep is True)))
        elif r.status != 'PASS':
            out.inconclusive.append('%s: %s' % (r.harness, r.reason))
        summary.append(j)
    return summary
