"""Shared glue for checks decided by engine M (mirsym) + the native replay driver."""
import os
import subprocess
import threading

from . import tree as treemod
from .driver import Violation
from .tree import Inconclusive


class Replayer:
    """persistent native replay process (hooks/lib.rs facade of the scratch tree, dev profile by default)"""

    def __init__(self, tree, release=False):
        self.bin = tree.replay_bin(release=release)
        self.p = None
        self.lock = threading.Lock()
        self.count = 0

    def _start(self):
        self.p = subprocess.Popen([self.bin], stdin=subprocess.PIPE, stdout=subprocess.PIPE, text=True, bufsize=1,
                                  cwd=os.path.dirname(self.bin))

    def ask(self, line):
        with self.lock:
            if self.p is None or self.p.poll() is not None:
                self._start()
            self.count += 1
            try:
                self.p.stdin.write(line.strip() + '\n')
                self.p.stdin.flush()
                ans = self.p.stdout.readline()
                # the code under test may print to stdout (n2: warn ...): answers carry a marker
                noise = []
                while ans and not ans.startswith('@@'):
                    noise.append(ans.rstrip('\n'))
                    ans = self.p.stdout.readline()
                if ans:
                    ans = ans[2:]
                    if noise:
                        ans = ans.rstrip('\n') + ' [stdout: ' + ' | '.join(noise)[:300] + ']\n'
            except BrokenPipeError:
                ans = ''
            if not ans:
                rc = self.p.wait()
                self.p = None
                return 'ABORT rc=%s' % rc
            return ans.rstrip('\n')

    def close(self):
        if self.p is not None:
            try:
                self.p.stdin.close()
                self.p.wait(timeout=5)
            except Exception:
                self.p.kill()


def hexs(b):
    return bytes(b).hex() if b else '-'


def load_interp(ctx, extra_models=()):
    import mirsym
    return mirsym.load(ctx.tree, extra_models)


def finish_exploration(out, ex, what):
    """common bookkeeping: unsupported / incomplete -> inconclusive"""
    if ex.unsupported:
        out.inconclusive.append('%s: engine could not interpret: %s' % (what, ex.unsupported[-700:]))
    if ex.incomplete:
        out.inconclusive.append('%s: %s' % (what, ex.incomplete))
    if ex.paths == 0 and not ex.unsupported:
        out.inconclusive.append('%s: no path was explored (vacuous)' % what)


def merge_cov(cov, name, ex, extra=None):
    d = ex.to_cov()
    if extra:
        d.update(extra)
    cov.setdefault('harnesses', {})[name] = d
    cov['paths'] = cov.get('paths', 0) + ex.paths
    cov['solver_queries'] = cov.get('solver_queries', 0) + ex.queries
    cov['solver_s'] = round(cov.get('solver_s', 0) + ex.solver_s, 2)
    cov['obligations'] = cov.get('obligations', 0) + ex.obligations
    fe = set(cov.get('functions_encoded', []))
    fe.update(ex.fns)
    cov['functions_encoded'] = sorted(fe)
    tb = set(cov.get('std_models_used', []))
    tb.update(ex.models)
    cov['std_models_used'] = sorted(tb)
