"""Check driver: runs checks/<ID>.py, applies known findings, writes evidence, prints verdict lines.

exit 0  property held on everything explored (KNOWN-FINDING lines allowed)
exit 1  VIOLATION property=<id> replay=<path>   (a reproduced counterexample not listed as known)
exit 2  INCONCLUSIVE (tool failure, unmodelled construct, timeout, non-reproducing model) - never a pass
"""
import importlib
import json
import os
import re
import sys
import time
import traceback

from .tree import VERIF, Inconclusive, get_tree


class Violation:
    def __init__(self, key, desc, replay=None, reproduced=True):
        self.key = key            # stable role key: call site + input class (matched against known findings)
        self.desc = desc
        self.replay = replay or {}
        self.reproduced = reproduced


class Outcome:
    def __init__(self):
        self.violations = []
        self.coverage = {}
        self.assumptions = []
        self.inconclusive = []    # reasons

    def add(self, v):
        self.violations.append(v)


class Ctx:
    def __init__(self, pid, tier, seed):
        self.pid = pid
        self.tier = tier
        self.seed = seed
        self.t0 = time.time()
        self._tree = None
        self.jobs = int(os.environ.get('VERIF_JOBS', '16'))

    @property
    def tree(self):
        if self._tree is None:
            self._tree = get_tree()
        return self._tree

    def quick(self):
        return self.tier == 'quick'


def known_findings(pid):
    """[(regex, text)] for `finding:` lines of this property; `fixed:` lines suppress nothing"""
    out = []
    p = os.path.join(VERIF, 'known_findings.txt')
    if not os.path.exists(p):
        return out
    for line in open(p):
        line = line.strip()
        m = re.match(r'^finding:\s+property=(\S+)\s+key=(\S+)\s+(.*)$', line)
        if m and m.group(1) == pid:
            out.append((re.compile(m.group(2)), m.group(3)))
    return out


def write_evidence(ctx, level, out, nviol):
    cov = dict(out.coverage)
    ev = {
        'property_id': ctx.pid, 'tier': ctx.tier, 'seed': ctx.seed, 'level': level,
        'coverage': cov, 'assumptions': out.assumptions, 'wall_s': round(time.time() - ctx.t0, 1),
        'violations': nviol,
    }
    evdir = os.environ.get('N2VERIF_EVIDENCE', os.path.join(VERIF, 'evidence'))    # seed runs (tools/seedwt.sh) write elsewhere
    os.makedirs(evdir, exist_ok=True)
    path = os.path.join(evdir, ctx.pid + '.json')
    tmp = path + '.tmp'
    with open(tmp, 'w') as f:
        json.dump(ev, f, indent=1, default=str)
    os.replace(tmp, path)
    return path


def main(argv):
    import argparse
    ap = argparse.ArgumentParser()
    ap.add_argument('pid')
    ap.add_argument('--tier', default=os.environ.get('VERIF_TIER', 'quick'), choices=['quick', 'thorough'])
    ap.add_argument('--replay', default=None)
    a = ap.parse_args(argv)
    seed = int(os.environ.get('VERIF_SEED', '0') or 0)
    ctx = Ctx(a.pid, a.tier, seed)
    sys.path.insert(0, VERIF)
    mod = importlib.import_module('checks.' + a.pid)
    if a.replay:
        return mod.replay(ctx, json.load(open(a.replay)))
    out = Outcome()
    try:
        if getattr(mod, 'ENGINE_M', True):
            from checks import selftest
            st = selftest.ensure(ctx)
            out.coverage['translator_validation'] = {'cases': st['cases'], 'mismatches': len(st['mismatches'])}
            if st['mismatches']:
                # never a pass (exit 2 at best); the check still runs: a violation it finds counts only after native
                # replay / Kani concrete playback against the real code, which does not depend on the translator
                out.inconclusive.append('engine M disagrees with the natively compiled code on the translator-validation corpus: ' + ' || '.join(st['mismatches'])[:1200])
        mod.run(ctx, out)
    except Inconclusive as e:
        out.inconclusive.append(str(e))
    except Exception:  # noqa - machinery bug: never a pass
        out.inconclusive.append('machinery error:\n' + traceback.format_exc())
    known = known_findings(a.pid)
    cexdir = os.path.join(os.environ.get('N2VERIF_EVIDENCE', os.path.join(VERIF, 'evidence')), 'cex')
    os.makedirs(cexdir, exist_ok=True)
    for fn_ in os.listdir(cexdir):
        if fn_.startswith(a.pid + '-'):
            os.unlink(os.path.join(cexdir, fn_))
    new = 0
    seen_known = {}
    lines = []
    for i, v in enumerate(out.violations):
        if not v.reproduced:
            out.inconclusive.append('model did not reproduce natively: %s (%s)' % (v.key, v.desc))
            continue
        hit = None
        for rx, text in known:
            if rx.fullmatch(v.key):
                hit = (rx.pattern, text)
                break
        if hit:
            seen_known.setdefault(hit, v)
            continue
        path = os.path.join(cexdir, '%s-%d.json' % (a.pid, new))
        with open(path, 'w') as f:
            json.dump({'property': a.pid, 'key': v.key, 'desc': v.desc, 'replay': v.replay}, f, indent=1, default=str)
        lines.append('VIOLATION property=%s replay=%s' % (a.pid, path))
        lines.append('  what: %s [%s]' % (v.desc, v.key))
        new += 1
    for (pat, text), v in seen_known.items():
        print('KNOWN-FINDING: property=%s %s  (this run: %s)' % (a.pid, text, v.desc))
    out.coverage.setdefault('known_findings_hit', [t for (_, t) in seen_known])
    if out.inconclusive:
        out.coverage['inconclusive'] = out.inconclusive
    write_evidence(ctx, mod.LEVEL, out, new)
    for l in lines:
        print(l)
    if new:
        return 1
    if out.inconclusive:
        for r in out.inconclusive:
            print('INCONCLUSIVE property=%s: %s' % (a.pid, r))
        return 2
    print('OK property=%s tier=%s wall=%.0fs' % (a.pid, a.tier, time.time() - ctx.t0))
    return 0
