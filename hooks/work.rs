// Included at the end of src/work.rs of the scratch copy under cfg(any(kani, n2_verif)).
// Native replay of scheduler traces (C01, C04, C05, C06, C18, C19): a scripted command runner.

#[cfg(n2_verif)]
pub mod verif_sched {
    use super::*;
    use std::cell::RefCell;

    #[derive(Default)]
    pub struct Script {
        pub active: bool,
        pub cut: bool,
        pub dirty: Vec<bool>,
        pub finishes: Vec<(usize, char)>, // (index into the running list, S/F/I)
        pub next: usize,
        pub running: Vec<BuildId>,
        pub events: Vec<String>,
        pub mkdir_fail: Option<usize>,
    }

    thread_local! {
        pub static SCRIPT: RefCell<Script> = RefCell::new(Script::default());
    }

    fn idx(id: BuildId) -> usize {
        use crate::densemap::Index;
        id.index()
    }

    pub fn verif_active() -> bool {
        SCRIPT.with(|s| s.borrow().active)
    }
    pub fn verif_cut() -> bool {
        SCRIPT.with(|s| s.borrow().active && s.borrow().cut)
    }
    pub fn on_start(id: BuildId) {
        SCRIPT.with(|s| {
            let mut s = s.borrow_mut();
            s.running.push(id);
            s.events.push(format!("start:{}", idx(id)));
        })
    }
    pub fn judge(id: BuildId, phony: bool) -> bool {
        SCRIPT.with(|s| {
            let mut s = s.borrow_mut();
            if phony {
                s.events.push(format!("phony:{}", idx(id)));
                return false;
            }
            let d = s.dirty.get(idx(id)).copied().unwrap_or(false);
            s.events.push(format!("judge:{}:{}", idx(id), if d { 1 } else { 0 }));
            d
        })
    }
    pub fn on_mkdir(who: Option<BuildId>) -> anyhow::Result<()> {
        SCRIPT.with(|s| {
            let mut s = s.borrow_mut();
            if let (Some(w), Some(f)) = (who, s.mkdir_fail) {
                if idx(w) == f {
                    s.events.push(format!("mkdir-failed:{}", f));
                    anyhow::bail!("Permission denied (os error 13)");
                }
            }
            Ok(())
        })
    }
    pub fn on_record(id: BuildId) {
        SCRIPT.with(|s| s.borrow_mut().events.push(format!("record:{}", idx(id))))
    }
    pub fn next_finish() -> task::FinishedTask {
        SCRIPT.with(|s| {
            let mut s = s.borrow_mut();
            if s.running.is_empty() {
                panic!("verif: wait with nothing running");
            }
            let (k, oc) = if s.next < s.finishes.len() { s.finishes[s.next] } else { (0, 'S') };
            s.next += 1;
            // the M harness indexes the running steps in increasing step order
            let mut order: Vec<BuildId> = s.running.clone();
            order.sort_by_key(|b| idx(*b));
            let id = order[k.min(order.len() - 1)];
            s.running.retain(|b| idx(*b) != idx(id));
            s.events.push(format!("fin:{}:{}", idx(id), oc));
            let termination = match oc {
                'S' => process::Termination::Success,
                'I' => process::Termination::Interrupted,
                _ => process::Termination::Failure,
            };
            let now = std::time::Instant::now();
            task::FinishedTask {
                tid: 0,
                buildid: id,
                span: (now, now),
                result: task::TaskResult {
                    termination,
                    output: vec![],
                    discovered_deps: None,
                },
            }
        })
    }

    struct LogProgress;
    impl Progress for LogProgress {
        fn update(&self, counts: &StateCounts) {
            let c = [
                counts.get(BuildState::Want),
                counts.get(BuildState::Ready),
                counts.get(BuildState::Queued),
                counts.get(BuildState::Running),
                counts.get(BuildState::Done),
                counts.get(BuildState::Failed),
            ];
            SCRIPT.with(|s| {
                let mut s = s.borrow_mut();
                let nrun = s.running.len();
                s.events.push(format!("update:{},{},{},{},{},{}:{}", c[0], c[1], c[2], c[3], c[4], c[5], nrun));
            })
        }
        fn task_started(&self, _id: BuildId, _build: &Build) {}
        fn task_output(&self, _id: BuildId, _line: Vec<u8>) {}
        fn task_finished(&self, _id: BuildId, _build: &Build, _result: &task::TaskResult) {}
        fn log(&self, _msg: &str) {}
    }

    fn list(s: &str) -> Vec<usize> {
        if s.is_empty() {
            vec![]
        } else {
            s.split(',').map(|x| x.parse().unwrap()).collect()
        }
    }

    /// sched <nfiles;step/step..> <targets|every> <j> <k|-> <depth|-> <dirty bits> <script idx:oc,...|-> [adopt]
    /// step = outs:ins:explicit:implicit:order_only:phony:pool
    pub fn sched(args: &[String]) -> String {
        let g = &args[0];
        let (nf, steps) = g.split_once(';').unwrap();
        let nfiles: usize = nf.parse().unwrap();
        let mut graph = Graph::default();
        let ids: Vec<FileId> = (0..nfiles)
            .map(|i| graph.files.id_from_canonical(format!("f{}", i)))
            .collect();
        let mut phonies = Vec::new();
        for (line, st) in steps.split('/').enumerate() {
            let p: Vec<&str> = st.split(':').collect();
            let outs: Vec<FileId> = list(p[0]).iter().map(|&i| ids[i]).collect();
            let ins: Vec<FileId> = list(p[1]).iter().map(|&i| ids[i]).collect();
            let nouts = outs.len();
            let mut b = Build::new(
                FileLoc {
                    filename: std::rc::Rc::new(std::path::PathBuf::from("build.ninja")),
                    line: line + 1,
                },
                BuildIns {
                    ids: ins,
                    explicit: p[2].parse().unwrap(),
                    implicit: p[3].parse().unwrap(),
                    order_only: p[4].parse().unwrap(),
                },
                BuildOuts { ids: outs, explicit: nouts },
            );
            let phony = p[5] == "1";
            phonies.push(phony);
            if !phony {
                b.cmdline = Some("cmd".to_string());
            }
            if p[6] != "-" {
                b.pool = Some(p[6].to_string());
            }
            if let Err(e) = graph.add_build(b) {
                return format!("bad-graph {}", e);
            }
        }
        let nsteps = phonies.len();
        let j: usize = args[2].parse().unwrap();
        let mut options = Options::default();
        options.parallelism = j;
        options.failures_left = if args[3] == "-" { None } else { Some(args[3].parse().unwrap()) };
        options.adopt = args.get(7).map(|s| s == "adopt").unwrap_or(false);
        let mkdir_fail: Option<usize> = args.iter().find_map(|a| a.strip_prefix("mkdirfail=").and_then(|x| x.parse().ok()));
        let mut pools: SmallMap<String, usize> = SmallMap::default();
        if args[4] != "-" {
            pools.insert("p".to_string(), args[4].parse().unwrap());
        }
        let dirty: Vec<bool> = args[5].chars().map(|c| c == '1').collect();
        let finishes: Vec<(usize, char)> = if args[6] == "-" {
            vec![]
        } else {
            args[6]
                .split(',')
                .map(|x| {
                    let (a, b) = x.split_once(':').unwrap();
                    (a.parse().unwrap(), b.chars().next().unwrap())
                })
                .collect()
        };
        SCRIPT.with(|s| {
            *s.borrow_mut() = Script {
                active: true,
                cut: true,
                dirty,
                finishes,
                mkdir_fail,
                ..Default::default()
            }
        });
        let dir = std::env::temp_dir().join(format!("n2verif-sched-{}", std::process::id()));
        let _ = std::fs::create_dir_all(&dir);
        let dbpath = dir.join(".n2_db");
        let _ = std::fs::remove_file(&dbpath);
        let mut hashes = Hashes::default();
        let db = db::open(&dbpath, &mut graph, &mut hashes).unwrap();
        let progress = LogProgress;
        let mut work = Work::new(graph, hashes, db, &options, &progress, pools);
        let mut res = String::new();
        let mut want_err = None;
        if args[1] == "every" {
            if let Err(e) = work.want_every_file(None) {
                want_err = Some(e.to_string());
            }
        } else {
            for t in list(&args[1]) {
                if let Err(e) = work.want_file(ids[t]) {
                    want_err = Some(e.to_string());
                    break;
                }
            }
        }
        let wanted: Vec<String> = (0..nsteps)
            .map(|b| format!("{:?}", work.build_states.get(BuildId::from(b))))
            .collect();
        if let Some(e) = want_err {
            res.push_str(&format!("want=Err({})", e.replace(' ', "_")));
        } else {
            let r = work.run();
            res.push_str(&match r {
                Ok(b) => format!("result=Ok({})", b),
                Err(e) => format!("result=Err({})", e.to_string().replace(' ', "_")),
            });
        }
        let states: Vec<String> = (0..nsteps)
            .map(|b| format!("{:?}", work.build_states.get(BuildId::from(b))))
            .collect();
        let events = SCRIPT.with(|s| s.borrow().events.join(" "));
        SCRIPT.with(|s| s.borrow_mut().active = false);
        let _ = std::fs::remove_dir_all(&dir);
        format!(
            "{} wanted={} states={} tasks_run={} events= {}",
            res,
            wanted.join(","),
            states.join(","),
            work.tasks_run,
            events
        )
    }
}

#[cfg(kani)]
mod verif_kani {
    use super::*;

    /// StateCounts::add: one transition (prev -1, next +1) from arbitrary counters keeps the other counters, moves
    /// exactly one unit and never wraps when the source counter is positive (the invariant BuildStates::set maintains)
    #[kani::proof]
    #[kani::unwind(8)]
    pub fn statecounts_step() {
        let states = [
            BuildState::Want,
            BuildState::Ready,
            BuildState::Queued,
            BuildState::Running,
            BuildState::Done,
            BuildState::Failed,
        ];
        let raw: [usize; 6] = kani::any();
        let mut i = 0;
        while i < 6 {
            kani::assume(raw[i] <= (usize::MAX >> 4));
            i += 1;
        }
        let mut c = StateCounts(raw);
        let a: usize = kani::any();
        let b: usize = kani::any();
        kani::assume(a < 6 && b < 6);
        kani::assume(raw[a] > 0);
        c.add(states[a], -1);
        c.add(states[b], 1);
        if a != b {
            assert!(c.get(states[a]) == raw[a] - 1);
            assert!(c.get(states[b]) == raw[b] + 1);
        } else {
            assert!(c.get(states[a]) == raw[a]);
        }
        kani::cover!(a != b);
    }
}

#[cfg(n2_verif)]
pub mod verif_dirty {
    use super::*;
    use std::time::{Duration, SystemTime};

    struct NoProgress;
    impl Progress for NoProgress {
        fn update(&self, _counts: &StateCounts) {}
        fn task_started(&self, _id: BuildId, _build: &Build) {}
        fn task_output(&self, _id: BuildId, _line: Vec<u8>) {}
        fn task_finished(&self, _id: BuildId, _build: &Build, _result: &task::TaskResult) {}
        fn log(&self, _msg: &str) {}
    }

    fn set_file(name: &str, present: bool, secs: u64, nanos: u32) {
        if !present {
            let _ = std::fs::remove_file(name);
            return;
        }
        let f = std::fs::OpenOptions::new().create(true).write(true).open(name).unwrap();
        f.set_modified(SystemTime::UNIX_EPOCH + Duration::new(secs, nanos)).unwrap();
    }

    fn mk(order: &[&str], explicit: &str, cmd: u8, rsp: Option<u8>, dset: &[&str]) -> Graph {
        let mut g = Graph::default();
        for n in order {
            g.files.id_from_canonical(n.to_string());
        }
        let mut id = |n: &str| g.files.id_from_canonical(n.to_string());
        let ins = vec![id(explicit), id("imp"), id("oo"), id("val")];
        let outs = vec![id("out"), id("out2")];
        let disc: Vec<FileId> = dset.iter().map(|d| id(d)).collect();
        for n in ["in", "imp", "oo", "val", "disc", "out", "out2", "in2"] {
            id(n);
        }
        let mut b = Build::new(
            FileLoc { filename: std::rc::Rc::new(std::path::PathBuf::from("build.ninja")), line: 1 },
            BuildIns { ids: ins, explicit: 1, implicit: 1, order_only: 1 },
            BuildOuts { ids: outs, explicit: 2 },
        );
        b.cmdline = Some(String::from_utf8_lossy(&[b'c', b'c', b' ', cmd]).into_owned());
        if let Some(r) = rsp {
            b.rspfile = Some(RspFile { path: std::path::PathBuf::from("r.rsp"), content: String::from_utf8_lossy(&[b'@', r]).into_owned() });
        }
        b.set_discovered_ins(disc);
        g.add_build(b).unwrap();
        g
    }

    /// dirty1 <have_record> <dset|-> <renamed> <cmd_rec> <cmd_cur> <rsp_rec|-> <rsp_cur|-> name=rs.rn/[PM]cs.cn ...
    pub fn dirty1(args: &[String]) -> String {
        let dir = std::env::temp_dir().join(format!("n2verif-dirty-{}", std::process::id()));
        let _ = std::fs::remove_dir_all(&dir);
        std::fs::create_dir_all(&dir).unwrap();
        let old = std::env::current_dir().unwrap();
        std::env::set_current_dir(&dir).unwrap();
        let have_record = args[0] == "1";
        let dset: Vec<&str> = if args[1] == "-" { vec![] } else { args[1].split(',').collect() };
        let renamed = args[2] == "1";
        let byte = |s: &str| -> u8 { s.parse::<u64>().unwrap() as u8 };
        let opt = |s: &str| -> Option<u8> { if s == "-" { None } else { Some(byte(s)) } };
        let mut specs = Vec::new();
        for a in &args[7..] {
            let (name, rest) = a.split_once('=').unwrap();
            let (r, c) = rest.split_once('/').unwrap();
            let (rs, rn) = r.split_once('.').unwrap();
            let present = c.starts_with('P');
            let (cs, cn) = c[1..].split_once('.').unwrap();
            specs.push((name.to_string(), rs.parse::<u64>().unwrap(), rn.parse::<u32>().unwrap(), present, cs.parse::<u64>().unwrap(), cn.parse::<u32>().unwrap()));
        }
        let mut hashes = Hashes::default();
        if have_record {
            for s in &specs {
                set_file(&s.0, true, s.1, s.2);
            }
            let g1 = mk(&["out2", "disc", "in"], "in", byte(&args[3]), opt(&args[5]), &dset);
            let mut fs = FileState::new(&g1);
            for id in g1.files.all_ids() {
                fs.stat(id, g1.file(id).path()).unwrap();
            }
            let h = hash::hash_build(&g1.files, &fs, &g1.builds[BuildId::from(0)]);
            hashes.set(BuildId::from(0), h);
        }
        for s in &specs {
            set_file(&s.0, s.3, s.4, s.5);
        }
        let mut g2 = mk(&[], if renamed { "in2" } else { "in" }, byte(&args[4]), opt(&args[6]), &dset);
        let mut h0 = Hashes::default();
        let db = db::open(std::path::Path::new(".n2_db"), &mut g2, &mut h0).unwrap();
        let progress = NoProgress;
        let mut options = Options::default();
        options.parallelism = 1;
        let mut work = Work::new(g2, hashes, db, &options, &progress, SmallMap::default());
        let r = work.check_build_dirty(BuildId::from(0));
        std::env::set_current_dir(&old).unwrap();
        let _ = std::fs::remove_dir_all(&dir);
        match r {
            Ok(b) => format!("Ok({})", b),
            Err(e) => format!("Err({})", e),
        }
    }
}
