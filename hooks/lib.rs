// Included at the end of src/lib.rs of the scratch copy under cfg(n2_verif): native replay facade.
pub mod verif_facade {
    static LAST_PANIC: std::sync::Mutex<String> = std::sync::Mutex::new(String::new());

    fn unhex(s: &str) -> Vec<u8> {
        let s = s.trim();
        (0..s.len() / 2)
            .map(|i| u8::from_str_radix(&s[2 * i..2 * i + 2], 16).unwrap())
            .collect()
    }

    /// one replay command per line: "<cmd> <args...>"; the answer is one line, or "PANIC <message>"
    pub fn dispatch(line: &str) -> String {
        let mut it = line.split_whitespace();
        let cmd = it.next().unwrap_or("");
        let args: Vec<String> = it.map(|s| s.to_string()).collect();
        let cmd = cmd.to_string();
        let r = std::panic::catch_unwind(move || -> String {
            let arg = |i: usize| -> Vec<u8> { args.get(i).map(|s| if s == "-" { Vec::new() } else { unhex(s) }).unwrap_or_default() };
            match cmd.as_str() {
                "depfile" => crate::depfile::verif_depfile(arg(0)),
                "excerpt" => crate::scanner::verif_excerpt(arg(0), args.get(1).and_then(|s| s.parse().ok()).unwrap_or(0)),
                "dbcrash" => crate::db::verif_native::dbcrash(
                    args.get(0).map(|s| s.as_str()).unwrap_or("-"),
                    args.get(1).and_then(|s| s.parse().ok()).unwrap_or(0),
                    args.get(2).map(|s| s.as_str()).unwrap_or("0:0:0"),
                ),
                "dbattr" => crate::db::verif_native2::dbattr(
                    args.get(0).map(|s| s.as_str()).unwrap_or("---"),
                    args.get(1).map(|s| s.as_str()).unwrap_or("-"),
                    args.get(2).map(|s| s.as_str()).unwrap_or("---"),
                    args.get(3).map(|s| s == "rev").unwrap_or(false),
                ),
                "dbwide" => crate::db::verif_native2::dbwide(
                    args.get(0).and_then(|s| s.parse().ok()).unwrap_or(1),
                    args.get(1).and_then(|s| s.parse().ok()).unwrap_or(0),
                ),
                "canonspec" => {
                    let inp = arg(0);
                    let mut s = unsafe { String::from_utf8_unchecked(inp.clone()) };
                    crate::canon::canonicalize_path(&mut s);
                    let once = s.as_bytes().to_vec();
                    crate::canon::canonicalize_path(&mut s);
                    let want = crate::canon::spec_canon(&inp);
                    if once == want && s.as_bytes() == &once[..] && once.len() <= inp.len() && !once.is_empty() {
                        "ok same".to_string()
                    } else {
                        format!("differs: got {:?} twice {:?} reference {:?}", once, s.as_bytes(), want)
                    }
                }
                "sched" => crate::work::verif_sched::sched(&args),
                "dirty1" => crate::work::verif_dirty::dirty1(&args),
                "loadinc" => {
                    // loadinc <main> (<name> <content>)*: included files are written to a scratch directory first
                    let dir = std::env::temp_dir().join(format!("n2verif-inc-{}", std::process::id()));
                    let _ = std::fs::remove_dir_all(&dir);
                    std::fs::create_dir_all(&dir).unwrap();
                    let old = std::env::current_dir().unwrap();
                    let mut i = 1;
                    while i + 1 < args.len() {
                        std::fs::write(dir.join(&args[i]), arg(i + 1)).unwrap();
                        i += 2;
                    }
                    std::env::set_current_dir(&dir).unwrap();
                    let r = crate::load::verif_load_text(arg(0));
                    std::env::set_current_dir(&old).unwrap();
                    let _ = std::fs::remove_dir_all(&dir);
                    r
                }
                "taskmsg" => crate::progress_fancy::verif_taskmsg(
                    arg(0),
                    args.get(1).and_then(|s| s.parse().ok()).unwrap_or(0),
                    args.get(2).and_then(|s| s.parse().ok()).unwrap_or(80),
                ),
                "bar" => {
                    let mut c = [0usize; 6];
                    for i in 0..6 {
                        c[i] = args.get(i).and_then(|s| s.parse().ok()).unwrap_or(0);
                    }
                    crate::progress_fancy::verif_bar(c)
                }
                "load" => crate::load::verif_load_text(arg(0)),
                "canon" => {
                    let mut s = unsafe { String::from_utf8_unchecked(arg(0)) };
                    crate::canon::canonicalize_path(&mut s);
                    format!("ok {}", s.as_bytes().iter().map(|x| format!("{:02x}", x)).collect::<Vec<_>>().join(""))
                }
                other => format!("UNKNOWN {}", other),
            }
        });
        match r {
            Ok(s) => s,
            Err(e) => {
                let msg = if let Some(s) = e.downcast_ref::<String>() {
                    s.clone()
                } else if let Some(s) = e.downcast_ref::<&str>() {
                    s.to_string()
                } else {
                    "?".to_string()
                };
                let full = LAST_PANIC.lock().unwrap().clone();
                format!("PANIC {} | {}", msg.replace('\n', " "), full)
            }
        }
    }

    pub fn main() {
        use std::io::BufRead;
        std::panic::set_hook(Box::new(|info| {
            *LAST_PANIC.lock().unwrap() = format!("{}", info).replace('\n', " ");
        }));
        let stdin = std::io::stdin();
        for line in stdin.lock().lines() {
            let line = line.unwrap();
            if line.trim().is_empty() {
                continue;
            }
            println!("@@{}", dispatch(&line));
        }
    }
}
