// Included at the end of src/graph.rs of the scratch copy under cfg(any(kani, n2_verif)).

#[cfg(kani)]
mod verif_kani {
    use super::*;

    /// C14: an output repeated inside one statement is "treated as listed once":
    /// result = first occurrences in order; `explicit` = number of distinct ids among the
    /// original explicit prefix; explicit <= len (so explicit_outs() cannot slice out of range).
    macro_rules! dedup {
        ($name:ident, $n:expr, $unw:expr) => {
            #[kani::proof]
            #[kani::unwind($unw)]
            pub fn $name() {
                let raw: [u32; $n] = kani::any();
                let mut i = 0;
                while i < $n {
                    kani::assume(raw[i] < $n);
                    i += 1;
                }
                let explicit: usize = kani::any();
                kani::assume(explicit <= $n);
                let mut ids = Vec::with_capacity($n);
                let mut i = 0;
                while i < $n {
                    ids.push(FileId(raw[i]));
                    i += 1;
                }
                let mut outs = BuildOuts { ids, explicit };
                outs.remove_duplicates();
                // oracle
                let mut distinct_explicit = 0;
                let mut distinct = 0;
                let mut i = 0;
                while i < $n {
                    let mut seen = false;
                    let mut j = 0;
                    while j < i {
                        if raw[j] == raw[i] {
                            seen = true;
                        }
                        j += 1;
                    }
                    if !seen {
                        // the k-th distinct id is the k-th element of the result
                        assert!(distinct < outs.ids.len());
                        assert!(outs.ids[distinct].0 == raw[i]);
                        distinct += 1;
                        if i < explicit {
                            distinct_explicit += 1;
                        }
                    }
                    i += 1;
                }
                assert!(outs.ids.len() == distinct);
                assert!(outs.explicit == distinct_explicit);
                assert!(outs.explicit <= outs.ids.len());
                kani::cover!(distinct < $n);
                std::mem::forget(outs);
            }
        };
    }
    dedup!(dedup_2, 2, 4);
    dedup!(dedup_3, 3, 5);
    dedup!(dedup_4, 4, 6);
    dedup!(dedup_5, 5, 7);
}
