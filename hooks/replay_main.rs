// src/bin/n2verif_replay.rs of the scratch copy: native replay driver (reads commands on stdin).
fn main() {
    #[cfg(n2_verif)]
    n2::verif_facade::main();
}
