// Included at the end of src/parse.rs of the scratch copy under cfg(any(kani, n2_verif)).
// C12 (engine K): the leaf readers on a fully symbolic NUL-terminated buffer from a SYMBOLIC start offset, with
// CBMC's real memory semantics for get_unchecked / from_utf8_unchecked slices.
#[cfg(kani)]
mod verif_kani {
    use super::*;

    fn fmt_stub(_args: std::fmt::Arguments<'_>) -> String {
        String::new()
    }

    fn sym_buf<const M: usize>() -> [u8; M] {
        let mut buf: [u8; M] = kani::any();
        buf[M - 1] = 0;
        buf
    }

    /// precondition shared by the leaf readers (guaranteed by the M whole-parse runs, see checks/loaderlib.py):
    /// the scanner does not rest on the LF of a CR LF pair
    fn rests_ok(buf: &[u8], ofs: usize) -> bool {
        !(ofs > 0 && buf[ofs] == b'\n' && buf[ofs - 1] == b'\r')
    }

    macro_rules! unit_ofs {
        ($name:ident, $m:expr, $unw:expr, |$p:ident| $body:expr) => {
            #[kani::proof]
            #[kani::unwind($unw)]
            #[kani::stub(std::fmt::format, fmt_stub)]
            pub fn $name() {
                let buf = sym_buf::<$m>();
                let mut $p = Parser::new(&buf);
                let ofs: usize = kani::any();
                kani::assume(ofs < $m);
                kani::assume(rests_ok(&buf, ofs));
                $p.scanner.ofs = ofs;
                $p.scanner.line = kani::any();
                kani::assume($p.scanner.line >= 1 && $p.scanner.line < 1000);
                let r = $body;
                if r.is_ok() {
                    assert!($p.scanner.ofs < $m);
                }
                kani::cover!(r.is_ok());
                std::mem::forget(r);
            }
        };
    }
    unit_ofs!(o_read_escape_8, 9, 11, |p| p.read_escape());
    unit_ofs!(o_read_ident_8, 9, 11, |p| p.read_ident());
    unit_ofs!(o_read_simple_varname_8, 9, 11, |p| p.read_simple_varname());
    unit_ofs!(o_skip_comment_8, 9, 11, |p| p.skip_comment());

    #[kani::proof]
    #[kani::unwind(11)]
    pub fn o_skip_spaces_8() {
        let buf = sym_buf::<9>();
        let mut p = Parser::new(&buf);
        let ofs: usize = kani::any();
        kani::assume(ofs < 9);
        kani::assume(rests_ok(&buf, ofs));
        p.scanner.ofs = ofs;
        p.skip_spaces();
        assert!(p.scanner.ofs < 9);
        kani::cover!(p.scanner.ofs > ofs);
    }

    /// Scanner::{peek, read, back, skip, expect, slice}: one step each from an arbitrary in-range offset
    #[kani::proof]
    #[kani::unwind(11)]
    #[kani::stub(std::fmt::format, fmt_stub)]
    pub fn o_scanner_prims_8() {
        let buf = sym_buf::<9>();
        let mut p = Parser::new(&buf);
        let ofs: usize = kani::any();
        kani::assume(ofs < 9);
        p.scanner.ofs = ofs;
        p.scanner.line = 5;
        let c = p.scanner.peek();
        let r = p.scanner.read();
        assert!(c == r);
        assert!(p.scanner.ofs == ofs + 1);
        p.scanner.back();
        assert!(p.scanner.ofs <= ofs);
        let ch: u8 = kani::any();
        kani::assume(ch < 128);
        let before = p.scanner.ofs;
        let ok = p.scanner.skip(ch as char);
        assert!(p.scanner.ofs <= before + 1);
        let _ = ok;
        let s = p.scanner.ofs;
        kani::assume(s < 9);
        let e = p.scanner.expect(ch as char);
        kani::cover!(e.is_ok());
        std::mem::forget(e);
        let a: usize = kani::any();
        let b: usize = kani::any();
        kani::assume(a <= b && b <= 9);
        let sl = p.scanner.slice(a, b);
        assert!(sl.len() == b - a);
    }
}
