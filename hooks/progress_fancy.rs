// Included at the end of src/progress_fancy.rs of the scratch copy under cfg(any(kani, n2_verif)).

#[cfg(n2_verif)]
pub fn verif_taskmsg(msg: Vec<u8>, seconds: usize, cols: usize) -> String {
    let s = String::from_utf8_lossy(&msg).into_owned();
    let r = task_message(&s, seconds, cols);
    let note = if seconds > 2 { format!(" ({}s)", seconds).len() } else { 0 };
    if r.len() > cols && 3 + note <= cols {
        return format!("bad: {} bytes for {} columns", r.len(), cols);
    }
    format!("ok {}", r.len())
}

#[cfg(n2_verif)]
pub fn verif_bar(c: [usize; 6]) -> String {
    let mut counts = StateCounts::default();
    let states = [BuildState::Want, BuildState::Ready, BuildState::Queued, BuildState::Running, BuildState::Done, BuildState::Failed];
    for i in 0..6 {
        counts.add(states[i], c[i] as isize);
    }
    let bar = progress_bar(&counts, 40);
    if bar.len() != 40 {
        return format!("bad: bar of {} characters: {:?}", bar.len(), bar);
    }
    format!("ok {}", bar)
}

#[cfg(kani)]
mod verif_kani {
    use super::*;

    #[kani::proof]
    #[kani::unwind(6)]
    pub fn truncate_sym() {
        // 2-byte + 3-byte + 1-byte + 4-byte characters
        let s = "\u{e9}\u{2501}a\u{1f600}";
        let max: usize = kani::any();
        let t = truncate(s, max);
        assert!(t.len() <= max || t.len() == s.len());
        assert!(s.is_char_boundary(t.len()));
        kani::cover!(t.len() == 2);
    }
}
