// Included at the end of src/scanner.rs of the scratch copy under cfg(any(kani, n2_verif)).

/// native facade: format_parse_error for an error at byte offset `ofs` of `bytes`
#[cfg(n2_verif)]
pub fn verif_excerpt(mut bytes: Vec<u8>, ofs: usize) -> String {
    bytes.push(0);
    let s = Scanner::new(&bytes);
    let msg = s.format_parse_error(
        Path::new("build.ninja"),
        ParseError {
            msg: "boom".to_string(),
            ofs,
        },
    );
    format!("ok {}", msg.as_bytes().iter().map(|x| format!("{:02x}", x)).collect::<Vec<_>>().join(""))
}
