// Included at the end of src/db.rs of the scratch copy under cfg(any(kani, n2_verif)).
// Native replay of log histories (C07/C08) on real files, and Kani kernels for the integer codecs.

#[cfg(n2_verif)]
pub mod verif_native {
    use super::*;
    use crate::graph::{Build, BuildIns, BuildOuts, FileLoc};
    use std::path::PathBuf;

    pub const DEPSETS: [&[&str]; 4] = [&[], &["h1"], &["h1", "h2"], &["h2", "a"]];

    fn loc() -> FileLoc {
        FileLoc {
            filename: std::rc::Rc::new(PathBuf::from("build.ninja")),
            line: 1,
        }
    }

    /// producers[i] = step producing file i of `names` (or none); inputs fixed: every step reads "src"
    pub fn mk_graph(names: &[&str], producers: &[Option<usize>], nsteps: usize) -> Graph {
        mk_graph_into(Graph::default(), names, producers, nsteps)
    }

    pub fn mk_graph_into(mut g: Graph, names: &[&str], producers: &[Option<usize>], nsteps: usize) -> Graph {
        let ids: Vec<FileId> = names
            .iter()
            .map(|n| g.files.id_from_canonical(n.to_string()))
            .collect();
        for extra in ["h1", "h2", "src"] {
            g.files.id_from_canonical(extra.to_string());
        }
        let src = g.files.id_from_canonical("src".to_string());
        for s in 0..nsteps {
            let outs: Vec<FileId> = (0..names.len())
                .filter(|&i| producers[i] == Some(s))
                .map(|i| ids[i])
                .collect();
            let n = outs.len();
            let mut b = Build::new(
                loc(),
                BuildIns {
                    ids: vec![src],
                    explicit: 1,
                    implicit: 0,
                    order_only: 0,
                },
                BuildOuts { ids: outs, explicit: n },
            );
            b.cmdline = Some("cmd".to_string());
            g.add_build(b).unwrap();
        }
        g
    }

    pub fn standard_graph() -> Graph {
        // s0 -> a ; s1 -> b, c ; s2 -> d   (same as checks/C07.py::mk_world)
        mk_graph(&["a", "b", "c", "d"], &[Some(0), Some(1), Some(1), Some(2)], 3)
    }

    fn set_deps(g: &mut Graph, bid: usize, deps: &[&str]) {
        let ids: Vec<FileId> = deps
            .iter()
            .map(|d| g.files.id_from_canonical(d.to_string()))
            .collect();
        g.builds[BuildId::from(bid)].set_discovered_ins(ids);
    }

    fn snapshot(g: &Graph, h: &Hashes, nsteps: usize) -> Vec<(usize, Option<u64>, Vec<String>)> {
        let mut out = Vec::new();
        for s in 0..nsteps {
            let bid = BuildId::from(s);
            let deps: Vec<String> = g.builds[bid]
                .discovered_ins()
                .iter()
                .map(|&d| g.file(d).name.clone())
                .collect();
            let hash = h.get(bid).map(|x| x.0);
            if hash.is_some() || !deps.is_empty() {
                out.push((s, hash, deps));
            }
        }
        out
    }

    /// "<step>:<depset>:<hash>,..." "<cut>" "<step>:<depset>:<hash>"
    pub fn dbcrash(recs: &str, cut: u64, app: &str) -> String {
        let dir = std::env::temp_dir().join(format!("n2verif-db-{}", std::process::id()));
        let _ = std::fs::remove_dir_all(&dir);
        std::fs::create_dir_all(&dir).unwrap();
        let path = dir.join(".n2_db");
        let parse3 = |s: &str| -> (usize, usize, u64) {
            let p: Vec<&str> = s.split(':').collect();
            (p[0].parse().unwrap(), p[1].parse().unwrap(), p[2].parse().unwrap())
        };
        let mut want: Vec<(usize, Option<u64>, Vec<String>)> = Vec::new();
        let mut ends: Vec<(u64, usize, u64, Vec<String>)> = Vec::new();
        {
            let mut g = standard_graph();
            let mut h = Hashes::default();
            let mut w = match open(&path, &mut g, &mut h) {
                Ok(w) => w,
                Err(e) => return format!("bad: first open failed: {}", e),
            };
            if recs != "-" {
                for r in recs.split(',') {
                    let (step, ds, hash) = parse3(r);
                    set_deps(&mut g, step, DEPSETS[ds]);
                    w.write_build(&g, BuildId::from(step), BuildHash(hash)).unwrap();
                    let len = std::fs::metadata(&path).unwrap().len();
                    ends.push((len, step, hash, DEPSETS[ds].iter().map(|s| s.to_string()).collect()));
                }
            }
        }
        let total = std::fs::metadata(&path).unwrap().len();
        if cut > total {
            return format!("bad: cut {} beyond log length {}", cut, total);
        }
        std::fs::OpenOptions::new().write(true).open(&path).unwrap().set_len(cut).unwrap();
        for (end, step, hash, deps) in &ends {
            if *end <= cut {
                want.retain(|x| x.0 != *step);
                want.push((*step, Some(*hash), deps.clone()));
            }
        }
        want.sort();
        let (astep, ads, ahash) = parse3(app);
        {
            let mut g = standard_graph();
            let mut h = Hashes::default();
            let mut w = match open(&path, &mut g, &mut h) {
                Ok(w) => w,
                Err(e) => return format!("bad: open after crash failed: {}", e),
            };
            let got = snapshot(&g, &h, 3);
            if got != want {
                return format!("bad: after crash loaded {:?}, intact records {:?}", got, want);
            }
            set_deps(&mut g, astep, DEPSETS[ads]);
            if let Err(e) = w.write_build(&g, BuildId::from(astep), BuildHash(ahash)) {
                return format!("bad: append failed: {}", e);
            }
        }
        want.retain(|x| x.0 != astep);
        want.push((astep, Some(ahash), DEPSETS[ads].iter().map(|s| s.to_string()).collect()));
        want.sort();
        {
            let mut g = standard_graph();
            let mut h = Hashes::default();
            match open(&path, &mut g, &mut h) {
                Ok(_) => {}
                Err(e) => return format!("bad: open after recovery failed: {}", e),
            };
            let got = snapshot(&g, &h, 3);
            if got != want {
                return format!("bad: after recovery loaded {:?}, expected {:?}", got, want);
            }
        }
        let _ = std::fs::remove_dir_all(&dir);
        "ok".to_string()
    }
}

// Engine K: the integer codecs of the record writer with real integer semantics
#[cfg(kani)]
mod verif_kani {
    use super::*;

    /// write_id: every id below 2^24 is written as three bytes that decode to it
    #[kani::proof]
    #[kani::unwind(6)]
    pub fn write_id_roundtrip() {
        let x: u32 = kani::any();
        kani::assume(x < (1 << 24));
        let mut w = RecordWriter::default();
        w.write_id(Id(x));
        assert!(w.0.len() == 3);
        let got = (w.0[0] as u32) | ((w.0[1] as u32) << 8) | ((w.0[2] as u32) << 16);
        assert!(got == x);
        kani::cover!(x == (1 << 24) - 1);
        std::mem::forget(w);
    }

    /// write_id: the first id that does not fit is refused (panic), not truncated
    #[kani::proof]
    #[kani::unwind(6)]
    #[kani::should_panic]
    pub fn write_id_limit() {
        let mut w = RecordWriter::default();
        w.write_id(Id(1 << 24));
        std::mem::forget(w);
    }

    #[kani::proof]
    #[kani::unwind(10)]
    pub fn write_ints_roundtrip() {
        let a: u16 = kani::any();
        let b: u64 = kani::any();
        let mut w = RecordWriter::default();
        w.write_u16(a);
        w.write_u64(b);
        assert!(w.0.len() == 10);
        assert!(u16::from_le_bytes([w.0[0], w.0[1]]) == a);
        let mut eight = [0u8; 8];
        let mut i = 0;
        while i < 8 {
            eight[i] = w.0[2 + i];
            i += 1;
        }
        assert!(u64::from_le_bytes(eight) == b);
        kani::cover!(a == 0x8001);
        std::mem::forget(w);
    }
}

#[cfg(n2_verif)]
pub mod verif_native2 {
    use super::verif_native::*;
    use super::*;

    fn producers(s: &str) -> Vec<Option<usize>> {
        s.chars()
            .map(|c| if c == '-' { None } else { Some(c.to_digit(10).unwrap() as usize) })
            .collect()
    }

    fn deps_of(g: &mut Graph, bid: usize, deps: &[&str]) {
        let ids: Vec<FileId> = deps
            .iter()
            .map(|d| g.files.id_from_canonical(d.to_string()))
            .collect();
        g.builds[BuildId::from(bid)].set_discovered_ins(ids);
    }

    /// dbattr <g1 producers of a,b,c> <records step:depset:hash,...> <g2 producers> [rev]
    /// -> "ok step:hash:dep+dep;..." = what is loaded under the second manifest
    pub fn dbattr(p1: &str, recs: &str, p2: &str, rev: bool) -> String {
        let dir = std::env::temp_dir().join(format!("n2verif-dba-{}", std::process::id()));
        let _ = std::fs::remove_dir_all(&dir);
        std::fs::create_dir_all(&dir).unwrap();
        let path = dir.join(".n2_db");
        {
            let mut g = mk_graph(&["a", "b", "c"], &producers(p1), 2);
            let mut h = Hashes::default();
            let mut w = open(&path, &mut g, &mut h).unwrap();
            if recs != "-" {
                for r in recs.split(',') {
                    let p: Vec<&str> = r.split(':').collect();
                    let (step, ds, hash): (usize, usize, u64) = (p[0].parse().unwrap(), p[1].parse().unwrap(), p[2].parse().unwrap());
                    deps_of(&mut g, step, DEPSETS[ds]);
                    w.write_build(&g, BuildId::from(step), BuildHash(hash)).unwrap();
                }
            }
        }
        let names: Vec<&str> = if rev { vec!["c", "b", "a"] } else { vec!["a", "b", "c"] };
        let mut pr = producers(p2);
        if rev {
            pr.reverse();
        }
        let mut g = if rev {
            let mut g0 = Graph::default();
            g0.files.id_from_canonical("h2".to_string());
            mk_graph_into(g0, &names, &pr, 2)
        } else {
            mk_graph(&names, &pr, 2)
        };
        let mut h = Hashes::default();
        if let Err(e) = open(&path, &mut g, &mut h) {
            return format!("bad: open under the second manifest failed: {}", e);
        }
        let mut out = String::from("ok ");
        for s in 0..2 {
            let bid = BuildId::from(s);
            let deps: Vec<String> = g.builds[bid].discovered_ins().iter().map(|&d| g.file(d).name.clone()).collect();
            if let Some(hh) = h.get(bid) {
                out.push_str(&format!("{}:{}:{};", s, hh.0, deps.join("+")));
            } else if !deps.is_empty() {
                out.push_str(&format!("{}:-:{};", s, deps.join("+")));
            }
        }
        let _ = std::fs::remove_dir_all(&dir);
        out
    }

    /// one step with `nout` outputs and `ndeps` discovered deps is recorded and loaded again
    pub fn dbwide(nout: usize, ndeps: usize) -> String {
        let dir = std::env::temp_dir().join(format!("n2verif-dbw-{}", std::process::id()));
        let _ = std::fs::remove_dir_all(&dir);
        std::fs::create_dir_all(&dir).unwrap();
        let path = dir.join(".n2_db");
        let mk = |g: &mut Graph| {
            let outs: Vec<FileId> = (0..nout).map(|i| g.files.id_from_canonical(format!("o{}", i))).collect();
            let src = g.files.id_from_canonical("src".to_string());
            let mut b = crate::graph::Build::new(
                crate::graph::FileLoc { filename: std::rc::Rc::new(std::path::PathBuf::from("build.ninja")), line: 1 },
                crate::graph::BuildIns { ids: vec![src], explicit: 1, implicit: 0, order_only: 0 },
                crate::graph::BuildOuts { ids: outs, explicit: nout },
            );
            b.cmdline = Some("cmd".to_string());
            g.add_build(b).unwrap();
        };
        {
            let mut g = Graph::default();
            mk(&mut g);
            let deps: Vec<FileId> = (0..ndeps).map(|i| g.files.id_from_canonical(format!("d{}", i))).collect();
            g.builds[BuildId::from(0)].set_discovered_ins(deps);
            let mut h = Hashes::default();
            let mut w = open(&path, &mut g, &mut h).unwrap();
            w.write_build(&g, BuildId::from(0), BuildHash(77)).unwrap();
        }
        let mut g = Graph::default();
        mk(&mut g);
        let mut h = Hashes::default();
        if let Err(e) = open(&path, &mut g, &mut h) {
            return format!("bad: reload failed: {}", e);
        }
        let nd = g.builds[BuildId::from(0)].discovered_ins().len();
        let hh = h.get(BuildId::from(0)).map(|x| x.0);
        let _ = std::fs::remove_dir_all(&dir);
        if nd == ndeps && hh == Some(77) {
            "ok".to_string()
        } else {
            format!("bad: wrote {} deps hash 77, loaded {} deps hash {:?}", ndeps, nd, hh)
        }
    }
}
