// Included at the end of src/depfile.rs of the scratch copy under cfg(any(kani, n2_verif)).
// C15: reference reading of a Makefile-style depfile + native facade for replay.

/// Reference model written from the property statement (C15), in the restricted subset that mirsym
/// interprets without extra std models (while loops, indexing, Vec::push, plain structs).
///
/// A depfile is a sequence of entries `target: prerequisite ...`.  White space between tokens is ' ' or a
/// backslash-newline continuation; an unescaped newline ends an entry; blank lines are skipped.  The first
/// token of an entry is the target: either it ends in ':' (which is stripped) or it is followed - after
/// spaces only - by a ':'.  Everything else on the logical line is a prerequisite, verbatim (colons and
/// backslashes inside a token belong to the token: `C:/x\y.h`).  Anything else is malformed.
/// Deliberate leniency shared with n2 (documented in DESIGN.md, C15): a lone ":" is an entry with an empty
/// target name; the text ends at the first NUL.
#[cfg(n2_verif)]
pub mod verif_spec {
    pub struct Entry {
        pub t0: usize,
        pub t1: usize,
        pub deps: Vec<(usize, usize)>,
    }

    /// number of bytes of horizontal white space at i: ' ' or backslash-newline
    fn ws(buf: &[u8], i: usize) -> usize {
        if buf[i] == b' ' {
            return 1;
        }
        if buf[i] == b'\\' && buf[i + 1] == b'\n' {
            return 2;
        }
        0
    }

    fn token_end(buf: &[u8], mut i: usize) -> usize {
        while buf[i] != 0 && buf[i] != b'\n' && ws(buf, i) == 0 {
            i += 1;
        }
        i
    }

    /// buf is NUL-terminated.  None = malformed.
    pub fn parse(buf: &[u8]) -> Option<Vec<Entry>> {
        let mut entries: Vec<Entry> = Vec::new();
        let mut i = 0;
        loop {
            // blank lines and leading white space
            loop {
                if buf[i] == b'\n' {
                    i += 1;
                } else if ws(buf, i) > 0 {
                    i += ws(buf, i);
                } else {
                    break;
                }
            }
            if buf[i] == 0 {
                return Some(entries);
            }
            let t0 = i;
            i = token_end(buf, i);
            let mut t1 = i;
            if buf[t1 - 1] == b':' {
                t1 -= 1;
            } else {
                while buf[i] == b' ' {
                    i += 1;
                }
                if buf[i] != b':' {
                    return None;
                }
                i += 1;
            }
            let mut deps: Vec<(usize, usize)> = Vec::new();
            loop {
                while ws(buf, i) > 0 {
                    i += ws(buf, i);
                }
                if buf[i] == 0 || buf[i] == b'\n' {
                    break;
                }
                let d0 = i;
                i = token_end(buf, i);
                deps.push((d0, i));
            }
            entries.push(Entry { t0, t1, deps });
        }
    }

    /// all prerequisites of all targets, in order (what n2 records as discovered dependencies)
    pub fn flat(buf: &[u8]) -> Option<Vec<(usize, usize)>> {
        let entries = match parse(buf) {
            None => return None,
            Some(e) => e,
        };
        let mut out: Vec<(usize, usize)> = Vec::new();
        let mut i = 0;
        while i < entries.len() {
            let mut j = 0;
            while j < entries[i].deps.len() {
                out.push(entries[i].deps[j]);
                j += 1;
            }
            i += 1;
        }
        Some(out)
    }
}

/// native facade: "impl=<ok|err> [dep,dep,...] spec=<ok|err> [dep,...]" with deps hex-encoded
#[cfg(n2_verif)]
pub fn verif_depfile(mut bytes: Vec<u8>) -> String {
    fn hex(b: &[u8]) -> String {
        b.iter().map(|x| format!("{:02x}", x)).collect::<Vec<_>>().join("")
    }
    bytes.push(0);
    let mut out = String::new();
    let mut scanner = Scanner::new(&bytes);
    match parse(&mut scanner) {
        Ok(m) => {
            out.push_str("impl=ok [");
            let deps: Vec<String> = m
                .values()
                .flat_map(|x| x.iter())
                .map(|d| hex(d.as_bytes()))
                .collect();
            out.push_str(&deps.join(","));
            out.push(']');
        }
        Err(e) => {
            let msg = scanner.format_parse_error(std::path::Path::new("dep.d"), e);
            out.push_str("impl=err [");
            out.push_str(&hex(msg.as_bytes()));
            out.push(']');
        }
    }
    match verif_spec::flat(&bytes) {
        Some(d) => {
            out.push_str(" spec=ok [");
            let deps: Vec<String> = d.iter().map(|&(a, b)| hex(&bytes[a..b])).collect();
            out.push_str(&deps.join(","));
            out.push(']');
        }
        None => out.push_str(" spec=err []"),
    }
    out
}

// C12 (engine K): depfile leaf scanners from a symbolic start offset, real memory semantics
#[cfg(kani)]
mod verif_kani {
    use super::*;

    fn fmt_stub(_args: std::fmt::Arguments<'_>) -> String {
        String::new()
    }

    fn sym_buf<const M: usize>() -> [u8; M] {
        let mut buf: [u8; M] = kani::any();
        buf[M - 1] = 0;
        buf
    }

    fn rests_ok(buf: &[u8], ofs: usize) -> bool {
        !(ofs > 0 && buf[ofs] == b'\n' && buf[ofs - 1] == b'\r')
    }

    #[kani::proof]
    #[kani::unwind(12)]
    #[kani::stub(std::fmt::format, fmt_stub)]
    pub fn o_skip_spaces_8() {
        let buf = sym_buf::<9>();
        let mut s = Scanner::new(&buf);
        let ofs: usize = kani::any();
        kani::assume(ofs < 9);
        kani::assume(rests_ok(&buf, ofs));
        s.ofs = ofs;
        let r = skip_spaces(&mut s);
        if r.is_ok() {
            assert!(s.ofs < 9);
        }
        kani::cover!(r.is_ok() && s.ofs > ofs);
        std::mem::forget(r);
    }

    #[kani::proof]
    #[kani::unwind(12)]
    #[kani::stub(std::fmt::format, fmt_stub)]
    pub fn o_read_path_8() {
        let buf = sym_buf::<9>();
        let mut s = Scanner::new(&buf);
        let ofs: usize = kani::any();
        kani::assume(ofs < 9);
        kani::assume(rests_ok(&buf, ofs));
        s.ofs = ofs;
        let r = read_path(&mut s);
        if let Ok(p) = &r {
            assert!(s.ofs < 9);
            if let Some(p) = p {
                assert!(p.len() >= 1 && p.len() <= 8);
            }
        }
        kani::cover!(matches!(r, Ok(Some(_))));
        std::mem::forget(r);
    }
}
