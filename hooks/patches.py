"""Text patches applied to the scratch copy only (never to /repo): cfg(n2_verif)-gated early returns that hand the
command runner, the dirty judgement and the record call to the native replay driver (hooks/work.rs::verif_sched)
when a replay script is active.  With the guard off the lines are stripped by the compiler."""
import os
import re


class PatchError(Exception):
    pass


def _insert_after(txt, pattern, addition, what):
    m = re.search(pattern, txt)
    if not m:
        raise PatchError('cannot hook %s: signature not found' % what)
    return txt[:m.end()] + addition + txt[m.end():]


def apply(dst):
    p = os.path.join(dst, 'src', 'task.rs')
    t = open(p).read()
    t = _insert_after(t, r'pub fn start\(&mut self, id: BuildId, build: &Build(?:,[^)]*)?\) \{\n',
                      '        #[cfg(n2_verif)]\n        if crate::work::verif_sched::verif_active() {\n'
                      '            crate::work::verif_sched::on_start(id);\n            self.running += 1;\n            let _ = build;\n            return;\n        }\n',
                      'task::Runner::start')
    t = _insert_after(t, r'pub fn wait\(&mut self, mut output: impl FnMut\(BuildId, Vec<u8>\)\) -> FinishedTask \{\n',
                      '        #[cfg(n2_verif)]\n        if crate::work::verif_sched::verif_active() {\n'
                      '            let _ = &mut output;\n            self.running -= 1;\n            return crate::work::verif_sched::next_finish();\n        }\n',
                      'task::Runner::wait')
    open(p, 'w').write(t)
    p = os.path.join(dst, 'src', 'work.rs')
    t = open(p).read()
    t = _insert_after(t, r'fn check_build_dirty\(&mut self, id: BuildId\) -> anyhow::Result<bool> \{\n',
                      '        #[cfg(n2_verif)]\n        if verif_sched::verif_cut() {\n'
                      '            let phony = self.graph.builds[id].cmdline.is_none();\n            return Ok(verif_sched::judge(id, phony));\n        }\n',
                      'Work::check_build_dirty')
    t = _insert_after(t, r'fn record_finished\(&mut self, id: BuildId, result: task::TaskResult\) -> anyhow::Result<\(\)> \{\n',
                      '        #[cfg(n2_verif)]\n        if verif_sched::verif_cut() {\n'
                      '            let _ = &result;\n            verif_sched::on_record(id);\n            return Ok(());\n        }\n',
                      'Work::record_finished')
    t = _insert_after(t, r'fn create_parent_dirs\(\s*&(?:mut )?self,\s*ids: &\[FileId\](?:,[^)]*)?\s*\) -> anyhow::Result<\(\)> \{\n',
                      '        #[cfg(n2_verif)]\n        if verif_sched::verif_active() {\n            let who = ids.first().and_then(|&f| self.graph.file(f).input);\n            return verif_sched::on_mkdir(who);\n        }\n',
                      'Work::create_parent_dirs')
    open(p, 'w').write(t)
