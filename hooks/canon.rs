// Included at the end of src/canon.rs of the scratch copy under cfg(any(kani, n2_verif)).
// C13 / C12: Kani harnesses over the real canonicalize_path + reference model.

/// Reference model of lexical canonicalisation, written from the property statement (C13):
/// split on both separators; drop empty and "." components; "name/.." cancels; leading ".."
/// and the root are kept; every kept component keeps the separator byte that followed it in
/// the input; an empty result is ".".  Separate output vector, explicit component stack -
/// nothing in common with the in-place algorithm of canonicalize_path.
#[cfg(any(kani, n2_verif))]
pub fn spec_canon(inp: &[u8]) -> Vec<u8> {
    fn is_sep(b: u8) -> bool {
        b == b'/' || b == b'\\'
    }
    let n = inp.len();
    let mut out: Vec<u8> = Vec::new();
    let mut starts: Vec<usize> = Vec::new();
    let mut i = 0usize;
    if n > 0 && is_sep(inp[0]) {
        out.push(inp[0]);
        i = 1;
    }
    while i < n {
        let mut j = i;
        while j < n && !is_sep(inp[j]) {
            j += 1;
        }
        let has_sep = j < n;
        let len = j - i;
        if len == 0 {
        } else if len == 1 && inp[i] == b'.' {
        } else if len == 2 && inp[i] == b'.' && inp[i + 1] == b'.' {
            match starts.pop() {
                Some(s) => out.truncate(s),
                None => {
                    out.push(b'.');
                    out.push(b'.');
                    if has_sep {
                        out.push(inp[j]);
                    }
                }
            }
        } else {
            starts.push(out.len());
            let mut k = i;
            while k < j {
                out.push(inp[k]);
                k += 1;
            }
            if has_sep {
                out.push(inp[j]);
            }
        }
        i = j + 1;
    }
    if out.is_empty() {
        out.push(b'.');
    }
    out
}

#[cfg(kani)]
mod verif_kani {
    use super::*;

    fn is_sep(b: u8) -> bool {
        b == b'/' || b == b'\\'
    }

    /// array-based twin of spec_canon (no allocation: CBMC-friendly)
    fn spec<const N: usize>(inp: &[u8; N]) -> ([u8; N], usize) {
        let mut out = [0u8; N];
        let mut n = 0usize;
        let mut starts = [0usize; N];
        let mut depth = 0usize;
        let mut i = 0usize;
        if is_sep(inp[0]) {
            out[0] = inp[0];
            n = 1;
            i = 1;
        }
        while i < N {
            let mut j = i;
            while j < N && !is_sep(inp[j]) {
                j += 1;
            }
            let has_sep = j < N;
            let len = j - i;
            if len == 0 {
            } else if len == 1 && inp[i] == b'.' {
            } else if len == 2 && inp[i] == b'.' && inp[i + 1] == b'.' {
                if depth > 0 {
                    depth -= 1;
                    n = starts[depth];
                } else {
                    out[n] = b'.';
                    out[n + 1] = b'.';
                    n += 2;
                    if has_sep {
                        out[n] = inp[j];
                        n += 1;
                    }
                }
            } else {
                starts[depth] = n;
                depth += 1;
                let mut k = i;
                while k < j {
                    out[n] = inp[k];
                    n += 1;
                    k += 1;
                }
                if has_sep {
                    out[n] = inp[j];
                    n += 1;
                }
            }
            i = j + 1;
        }
        if n == 0 {
            out[0] = b'.';
            n = 1;
        }
        (out, n)
    }

    fn sym<const N: usize>() -> [u8; N] {
        let bytes: [u8; N] = kani::any();
        let mut i = 0;
        while i < N {
            let b = bytes[i];
            // alphabet: two letters, dot, both separators, and one non-ASCII byte (0xC3) standing
            // for "any other byte" - canonicalize_path only ever compares against '/', '\\', '.'
            kani::assume(b == b'a' || b == b'b' || b == b'.' || b == b'/' || b == b'\\' || b == 0xC3);
            i += 1;
        }
        bytes
    }

    /// (1) no UB / no panic, (2) 1 <= len <= n
    macro_rules! safe {
        ($name:ident, $n:expr, $unw:expr) => {
            #[kani::proof]
            #[kani::unwind($unw)]
            pub fn $name() {
                let bytes = sym::<$n>();
                let mut s = unsafe { String::from_utf8_unchecked(bytes.to_vec()) };
                canonicalize_path(&mut s);
                assert!(s.len() <= $n && s.len() >= 1);
                kani::cover!(s.len() == 1);
                std::mem::forget(s);
            }
        };
    }
    safe!(canon_safe_1, 1, 4);
    safe!(canon_safe_2, 2, 5);
    safe!(canon_safe_3, 3, 6);
    safe!(canon_safe_4, 4, 7);
    safe!(canon_safe_5, 5, 8);
    safe!(canon_safe_6, 6, 9);
    safe!(canon_safe_7, 7, 10);
    safe!(canon_safe_8, 8, 11);
    safe!(canon_safe_9, 9, 12);
    safe!(canon_safe_10, 10, 13);

    /// (3) idempotent, (4) equals the reference model
    macro_rules! full {
        ($name:ident, $n:expr, $unw:expr) => {
            #[kani::proof]
            #[kani::unwind($unw)]
            pub fn $name() {
                let bytes = sym::<$n>();
                let (want, wn) = spec::<$n>(&bytes);
                let mut s = unsafe { String::from_utf8_unchecked(bytes.to_vec()) };
                canonicalize_path(&mut s);
                assert!(s.len() == wn);
                let got = s.as_bytes();
                let mut i = 0;
                while i < $n {
                    if i < wn {
                        assert!(got[i] == want[i]);
                    }
                    i += 1;
                }
                canonicalize_path(&mut s);
                assert!(s.len() == wn);
                let got = s.as_bytes();
                let mut i = 0;
                while i < $n {
                    if i < wn {
                        assert!(got[i] == want[i]);
                    }
                    i += 1;
                }
                kani::cover!(wn < $n || $n == 1);
                std::mem::forget(s);
            }
        };
    }
    full!(canon_full_1, 1, 4);
    full!(canon_full_2, 2, 5);
    full!(canon_full_3, 3, 6);
    full!(canon_full_4, 4, 7);
    full!(canon_full_5, 5, 8);
    full!(canon_full_6, 6, 9);
    full!(canon_full_7, 7, 10);
    full!(canon_full_8, 8, 11);

    /// StackStack: push/pop discipline with real MaybeUninit semantics, one inductive step from
    /// an arbitrary fill level (capacity 4 instance of the generic type)
    #[kani::proof]
    #[kani::unwind(6)]
    pub fn stackstack_step() {
        let mut st = StackStack::<usize, 4>::new();
        let fill: usize = kani::any();
        kani::assume(fill <= 4);
        let mut i = 0;
        while i < fill {
            st.push(i * 7 + 1);
            i += 1;
        }
        let v: usize = kani::any();
        if fill < 4 {
            st.push(v);
            assert!(st.pop() == Some(v));
        }
        let mut k = fill;
        while k > 0 {
            k -= 1;
            assert!(st.pop() == Some(k * 7 + 1));
        }
        assert!(st.pop().is_none());
        kani::cover!(fill == 4);
    }
}
