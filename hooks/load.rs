// Included at the end of src/load.rs of the scratch copy under cfg(any(kani, n2_verif)).
// Loader entry points on in-memory manifest text (what load::read does, minus the file system and the db).

/// The whole manifest pipeline on a NUL-terminated buffer: Parser::read loop, eager top-level bindings,
/// rule/build/default/pool registration, path canonicalisation, Graph::add_build.
#[cfg(n2_verif)]
pub fn verif_load(bytes: &[u8]) -> anyhow::Result<Loader> {
    let mut loader = Loader::new();
    let mut parser = parse::Parser::new(bytes);
    loader.parse_with_parser(&mut parser, PathBuf::from("build.ninja"), &[])?;
    Ok(loader)
}

#[cfg(n2_verif)]
fn verif_hex(b: &[u8]) -> String {
    b.iter().map(|x| format!("{:02x}", x)).collect::<Vec<_>>().join("")
}

/// canonical text dump of a loaded manifest (hex-encoded strings so that any byte survives)
#[cfg(n2_verif)]
pub fn verif_dump_loader(loader: &Loader) -> String {
    let g = &loader.graph;
    let name = |id: FileId| verif_hex(g.file(id).name.as_bytes());
    let list = |ids: &[FileId]| ids.iter().map(|&i| name(i)).collect::<Vec<_>>().join(",");
    let opt = |s: &Option<String>| match s {
        None => "-".to_string(),
        Some(s) => format!("={}", verif_hex(s.as_bytes())),
    };
    let mut out = String::new();
    let nb = g.builds.next_id();
    let mut i = 0;
    loop {
        let bid = graph::BuildId::from(i);
        if g.builds.lookup(bid).is_none() {
            break;
        }
        let b = &g.builds[bid];
        out.push_str(&format!(
            "build line={} outs=[{}|{}] ins=[{}|{}|{}|{}] cmd{} desc{} depfile{} showinc={} rsp{} pool{} hs={} hp={};",
            b.location.line,
            list(b.explicit_outs()),
            list(&b.outs()[b.explicit_outs().len()..]),
            list(b.explicit_ins()),
            list(&b.dirtying_ins()[b.explicit_ins().len()..]),
            list(&b.ordering_ins()[b.dirtying_ins().len()..]),
            list(b.validation_ins()),
            opt(&b.cmdline),
            opt(&b.desc),
            opt(&b.depfile),
            b.parse_showincludes,
            match &b.rspfile {
                None => "-".to_string(),
                Some(r) => format!("={}:{}", verif_hex(r.path.to_string_lossy().as_bytes()), verif_hex(r.content.as_bytes())),
            },
            opt(&b.pool),
            b.hide_success,
            b.hide_progress,
        ));
        i += 1;
    }
    let _ = nb;
    out.push_str(&format!(" default=[{}]", list(&loader.default)));
    out.push_str(" pools=[");
    for (k, v) in loader.pools.iter() {
        out.push_str(&format!("{}:{},", verif_hex(k.as_bytes()), v));
    }
    out.push_str(&format!("] builddir{}", opt(&loader.builddir)));
    out.push_str(&format!(" files={}", g.files.all_ids().count()));
    out
}

/// native facade: "ok <dump>" | "err <hex of message>"
#[cfg(n2_verif)]
pub fn verif_load_text(mut bytes: Vec<u8>) -> String {
    bytes.push(0);
    match verif_load(&bytes) {
        Ok(l) => format!("ok {}", verif_dump_loader(&l)),
        Err(e) => format!("err {}", verif_hex(e.to_string().as_bytes())),
    }
}
