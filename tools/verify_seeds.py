#!/usr/bin/env python3
"""Confirms seeded changes (from /tmp/seeds/<id>/) in a scratch worktree of /repo's HEAD:
  (a) with the patch the existing suite passes, (b) the demonstration fails with it, (c) passes without it.
Confirmed seeds are stored as /verif/seeded/<id>/{patch.diff, demo files, README.md, meta.json}.
usage: verify_seeds.py [ids...]"""
import json
import os
import re
import shutil
import subprocess
import sys

SEEDS = os.environ.get('SEEDS', '/tmp/seeds')
WT = '/tmp/wtv'
OUT = '/verif/seeded'
ENV = dict(os.environ, CARGO_NET_OFFLINE='true', CARGO_TERM_COLOR='never')

# demonstrations that are #[cfg(test)] modules appended to a source file: seed -> (file, src file, cargo filter)
APPEND = {
    'C14-1': ('demo_test.rs', 'src/load.rs', None),
    'C15-2': ('c15_task_tests.rs', 'src/task.rs', 'c15_'),
    'C19-1': ('c19_counts_test.rs', 'src/work.rs', None),
    'C20-1': ('demo_test.rs', 'src/progress_fancy.rs', 'c20_1_demo'),
    'C20-2': ('demo_test.rs', 'src/progress_fancy.rs', 'c20_2_demo'),
    'C12-2': ('depfile_truncated_test.rs', 'src/depfile.rs', 'c12_truncated'),
    'C15-3': ('depfile_leading_backslash_test.rs', 'src/depfile.rs', 'c15_3'),
    'C20-4': ('progress_bar_width_tests.rs', 'src/progress_fancy.rs', 'bar_width_demo'),
}
# shell demonstrations taking the n2 binary
SHELL = {'C02-1': 'demo.sh', 'C02-2': 'demo.sh', 'C18-1': 'demo.sh', 'C18-2': 'demo.sh', 'C19-2': 'demo.sh', 'C02-3': 'demo.sh'}


def sh(cmd, cwd, timeout=1800):
    p = subprocess.run(cmd, cwd=cwd, env=ENV, shell=isinstance(cmd, str), stdout=subprocess.PIPE,
                       stderr=subprocess.STDOUT, text=True, timeout=timeout)
    return p.returncode, p.stdout


def suite(wt):
    rc, out = sh('cargo test --workspace --no-fail-fast --offline 2>&1', wt)
    passed = sum(int(m.group(1)) for m in re.finditer(r'test result: \w+\. (\d+) passed', out))
    failed = sum(int(m.group(1)) for m in re.finditer(r'test result: \w+\. \d+ passed; (\d+) failed', out))
    return rc, passed, failed, out[-1500:]


def mod_filter(test_file):
    txt = open(test_file).read()
    m = re.search(r'mod (\w+)\s*\{', txt)
    return m.group(1) if m else None


def run_demo(seed, wt, sdir):
    """returns (ok: bool, detail) - ok means the demonstration PASSED"""
    if seed in APPEND:
        fn, src, flt = APPEND[seed]
        srcp = os.path.join(wt, src)
        orig = open(srcp).read()
        try:
            with open(srcp, 'a') as f:
                f.write('\n' + open(os.path.join(sdir, fn)).read())
            flt = flt or mod_filter(os.path.join(sdir, fn)) or ''
            rc, out = sh('cargo test --offline --lib %s 2>&1' % flt, wt)
            ran = sum(int(m.group(1)) for m in re.finditer(r'test result: \w+\. (\d+) passed', out))
            failed = sum(int(m.group(1)) for m in re.finditer(r'(\d+) failed', out))
            okk = rc == 0 and ran > 0
            return okk, 'cargo test --lib %s: rc=%d passed=%d failed=%d %s' % (flt, rc, ran, failed, '' if okk else out[-400:].replace('\n', ' | '))
        finally:
            open(srcp, 'w').write(orig)
    if seed in SHELL:
        rc, out = sh('cargo build --offline 2>&1 | tail -1', wt)
        rc, out = sh('bash %s %s 2>&1' % (os.path.join(sdir, SHELL[seed]), os.path.join(wt, 'target/debug/n2')), wt, timeout=600)
        return rc == 0, '%s: rc=%d %s' % (SHELL[seed], rc, out[-300:].replace('\n', ' | '))
    # default: e2e test file(s)
    rs = [f for f in os.listdir(sdir) if f.endswith('.rs')]
    if not rs:
        return None, 'no demonstration recognised'
    modp = os.path.join(wt, 'tests/e2e/mod.rs')
    orig = open(modp).read()
    added = []
    try:
        with open(modp, 'a') as f:
            for r in rs:
                name = r[:-3]
                shutil.copy(os.path.join(sdir, r), os.path.join(wt, 'tests/e2e', r))
                added.append(os.path.join(wt, 'tests/e2e', r))
                f.write('\nmod %s;\n' % name)
        flt = rs[0][:-3]
        rc, out = sh('cargo test --offline --test e2e_test %s 2>&1' % flt, wt)
        ran = sum(int(m.group(1)) for m in re.finditer(r'test result: \w+\. (\d+) passed', out))
        failed = sum(int(m.group(1)) for m in re.finditer(r'(\d+) failed', out))
        okk = rc == 0 and ran > 0
        return okk, 'cargo test --test e2e_test %s: rc=%d passed=%d failed=%d %s' % (flt, rc, ran, failed, '' if okk else out[-400:].replace('\n', ' | '))
    finally:
        open(modp, 'w').write(orig)
        for a in added:
            os.unlink(a)


def main():
    ids = sys.argv[1:] or sorted(os.listdir(SEEDS))
    os.makedirs(WT, exist_ok=True)
    wt = os.path.join(WT, 'w')
    if os.path.exists(wt):
        subprocess.run(['git', '-C', '/repo', 'worktree', 'remove', '--force', wt])
    subprocess.run(['git', '-C', '/repo', 'worktree', 'add', '-f', '--detach', wt, 'HEAD'], stdout=subprocess.DEVNULL,
                   stderr=subprocess.DEVNULL, check=True)
    head = subprocess.run(['git', '-C', '/repo', 'rev-parse', '--short', 'HEAD'], stdout=subprocess.PIPE, text=True).stdout.strip()
    try:
        for seed in ids:
            sdir = os.path.join(SEEDS, seed)
            patch = os.path.join(sdir, 'patch.diff')
            res = {'seed': seed, 'repo_head': head}
            rc, out = sh(['git', 'apply', '--check', patch], wt)
            if rc != 0:
                res['status'] = 'patch does not apply: ' + out[-300:]
                print(json.dumps(res), flush=True)
                continue
            sh(['git', 'apply', patch], wt)
            rc, passed, failed, tail = suite(wt)
            res['suite_with_patch'] = {'rc': rc, 'passed': passed, 'failed': failed}
            d1, det1 = run_demo(seed, wt, sdir)
            res['demo_with_patch'] = {'passed': d1, 'detail': det1}
            sh(['git', 'apply', '-R', patch], wt)
            d2, det2 = run_demo(seed, wt, sdir)
            res['demo_without_patch'] = {'passed': d2, 'detail': det2}
            sh('git checkout -- . && git clean -fdq src tests', wt)
            good = rc == 0 and failed == 0 and passed >= 71 and d1 is False and d2 is True
            res['status'] = 'confirmed' if good else 'NOT confirmed'
            print(json.dumps(res), flush=True)
            if good:
                dst = os.path.join(OUT, seed)
                os.makedirs(dst, exist_ok=True)
                for f in os.listdir(sdir):
                    shutil.copy(os.path.join(sdir, f), os.path.join(dst, f))
                pid = seed.split('-')[0]
                readme = open(os.path.join(sdir, 'README.md')).read()
                meta = {'property': pid, 'origin': 'independent sub-agent given only the property text and a scratch worktree',
                        'needs_to_manifest': 'see README.md', 'confirmed_on_repo_head': head,
                        'what_was_run': {'suite_with_patch': 'cargo test --workspace --no-fail-fast --offline -> %d passed, %d failed' % (passed, failed),
                                         'demo_with_patch': det1, 'demo_without_patch': det2}}
                json.dump(meta, open(os.path.join(dst, 'meta.json'), 'w'), indent=1)
    finally:
        subprocess.run(['git', '-C', '/repo', 'worktree', 'remove', '--force', wt])


if __name__ == '__main__':
    main()
