#!/bin/bash
# usage: tools/seedwt.sh <patch.diff> <check id> [tier]  -- like seedrun.sh, but in a scratch worktree (N2_REPO), so /repo is
# never touched and several seeds can be tried at once; evidence of these runs goes to a scratch directory, not /verif/evidence
set -u
patch=$(readlink -f "$1"); pid=$2; tier=${3:-quick}
wt=$(mktemp -d /tmp/seedwt.XXXXXX)
git -C /repo worktree add --detach $wt/repo HEAD >/dev/null 2>&1 || exit 3
cleanup() { git -C /repo worktree remove --force $wt/repo >/dev/null 2>&1; rm -rf $wt; }
trap cleanup EXIT
git -C $wt/repo apply "$patch" || exit 3
cd /verif
out=$(N2_REPO=$wt/repo N2VERIF_EVIDENCE=$wt/evidence ./check "$pid" --tier "$tier" 2>&1); rc=$?
echo "$out" | grep -E "^(VIOLATION|KNOWN-FINDING|OK|INCONCLUSIVE)|what:" | cut -c1-500 | head -12
echo "exit=$rc"
