#!/usr/bin/env python3
"""Regenerates /verif/MANIFEST.json from the table below (one entry per claimed property)."""
import json
import os

VERIF = os.path.dirname(os.path.dirname(os.path.abspath(__file__)))

K = 'bounded model checking of the real code with Kani/CBMC (SAT)'
M = 'bounded symbolic execution of the real MIR with an SMT solver (mirsym + z3)'

CHECKS = {
    'C17': dict(engine='M', cat='model_checking',
                text='bounded symbolic execution of the real run_impl / build / Work::* over two independently drawn manifest generations handed out by a '
                     'model of load::read (steps renamed / removed / renumbered, default list and pool depth changed, a generator with a helper input), '
                     'symbolic dirty bits per (generation, step), targets, -f spelling, schedule and outcomes: the manifest phase touches only the '
                     'generator\'s closure, a reload happens exactly when a command ran for it, everything afterwards refers to the new generation, '
                     'failed regeneration stops with a non-zero exit, settled steps are not examined twice; two further families run the REAL load::read '
                     '(Parser, Loader, canonicalisation, numbering) over the generation\'s manifest text, single-file and split over an included file the '
                     'generator rewrites, with every examined step identified from the loaded graph',
                note='trusted: load::read modelled (generation k on the k-th call; the manifest is file 0 as in the real loader), S-cut scheduler environment, '
                     'parse_args modelled; failing paths are replayed end to end with the n2 binary and generator scripts',
                tech=M + '; two-generation manifest model; end-to-end native replay', ref='DESIGN.md section 4, C17'),
    'C16': dict(engine='M', cat='other',
                text='USER-SPACE PART ONLY: bounded symbolic execution of the real task::run_task (with its output closure, write_rspfile, find_last_line) '
                     'and process_posix::run_command / pipe2 / PosixSpawnAttr / PosixSpawnFileActions against an explicit POSIX model written in the check '
                     '(descriptor table with close-on-exec, spawn file actions applied in order in the child, a pipe that reports end-of-file only when no '
                     'write end is left open, the two wait-status encodings): argv is exactly /bin/sh -c <evaluated command bytes>, the child holds exactly '
                     '0 = /dev/null read-only and 1, 2 = its own pipe (no log, no other command\'s pipe, while another command is running), the response file '
                     'is written with exactly the evaluated content before the spawn, the captured output equals the bytes written for output sizes around '
                     'the 4 KiB buffer under four chunking patterns, run_command neither hangs nor leaks its pipe, and the wait status maps to '
                     'Success / Interrupted / Failure as the property states.  That the kernel, libc and /bin/sh behave as the model says, true thread '
                     'concurrency, the printing by the progress front ends and Windows are outside this technique and NOT claimed',
                note='trusted: the POSIX model in checks/C16.py (every libc call of process_posix.rs is a model there), std models, files opened by std are '
                     'close-on-exec; a counterexample is confirmed with the built n2 binary in a scratch project (commands listing /proc/$$/fd, echoing '
                     'quoting-heavy text, writing N bytes, exiting / killing themselves) before it is reported',
                tech=M + '; explicit POSIX model as environment; native probe with the n2 binary', ref='DESIGN.md section 4, C16'),
    'C20': dict(engine='M+K', cat='other',
                text='bounded symbolic execution of the real render helpers: task_message over valid UTF-8 text of every character-length pattern '
                     'up to the byte bound with symbolic seconds (0..10^6) and width (10..300), truncate with a symbolic limit, progress_bar with '
                     'six symbolic counters up to 2^40 in integer mode (fresh quotient/remainder per division), FancyState::task_output on long lines; '
                     'no panic, exact bar width, cuts on character boundaries; Kani on truncate',
                note='trusted: std models (String::truncate / str slicing check character boundaries as std does), integer-mode arithmetic with explicit '
                     'overflow obligations, Kani/CBMC; the display thread and lock poisoning are outside a sequential engine',
                tech=M + ' (integer theory for the division kernel); ' + K, ref='DESIGN.md section 4, C20'),
    'C10': dict(engine='M', cat='other',
                text='bounded symbolic execution of the real loader on structured manifests: an abstract build statement (paths per role, escapes) and '
                     'an abstract command value are rendered under symbolic spelling choices (separators, continuations, $v vs ${v}, escapes) with '
                     'symbolic bytes inside names and literals; the solver shows the loaded graph equals the declared one on every path',
                note='trusted: std models; the abstract-side oracle (checks/manifestlib.py) is the meaning of the syntax; free-form inputs are C12',
                tech=M + ', differential against an abstract-side oracle', ref='DESIGN.md section 4, C10'),
    'C11': dict(engine='M', cat='other',
                text='bounded symbolic execution of the real loader and evaluator on manifests whose bindings at file, rule and build level (and across '
                     'nested include / subninja files) are drawn symbolically; an abstract-side evaluator of the documented scoping rules states what '
                     'every command, description and path must expand to',
                note='trusted: std models, the abstract evaluator (manifestlib.expand); known finding: include does not extend the including scope',
                tech=M + ', differential against an abstract-side evaluator', ref='DESIGN.md section 4, C11'),
    'C02': dict(engine='M', cat='other',
                text='bounded symbolic execution of the real dirty check (check_build_dirty, hash_build, record_finished, write_build) with '
                     'symbolic recorded and current mtimes (64+32 bit per file), missing flags, command / response-file text and file numbering: '
                     'one-step kernel with the obligation "judged clean => nothing recorded changed", and a two-step chain run by the real '
                     'Work::run where the consumer must see the mtime its producer just wrote, the same chain with the real command runner, run_task '
                     'and read_depfile in the loop (the command reports through depfile text); failing models are replayed end to end with the n2 binary',
                note='trusted: graph::stat as symbolic file system, DefaultHasher as recording hasher (collision-free SipHash assumed), executor model applying '
                     'command effects, log-file model; the property\'s own assumptions (mtime changes with content, no concurrent writers, no phony dirtying inputs)',
                tech=M + '; recording hasher; end-to-end native replay', ref='DESIGN.md section 4, C02/C03'),
    'C03': dict(engine='M', cat='other',
                text='same kernel and chain as C02 with the converse obligation: a step is re-run only if its record is absent, a relevant file is '
                     'missing, or a recorded name / mtime / command line / response file differs; order-only and validation inputs, unrelated files '
                     'and file numbering are free symbolic values; -t restat (adopt) starts no command',
                note='trusted: as C02',
                tech=M + '; recording hasher; end-to-end native replay', ref='DESIGN.md section 4, C02/C03'),
    'C09': dict(engine='M', cat='other',
                text='bounded symbolic execution of the real record_finished / check_build_dirty on a two-step chain with symbolic old and newly '
                     'reported dependency lists (spelling variants, overlap with declared and order-only inputs, missing files), the one-step dirty '
                     'kernel, the chain with the real Runner::start/wait, run_task, read_depfile and extract_showincludes in the loop (8 report '
                     'variants as depfile text or /showIncludes output; the output passed on for display is checked too), and '
                     'task::extract_showincludes on symbolic lines',
                note='trusted: as C02; the executor model supplies the reported list; persistence through the log is C07/C08, depfile syntax C15',
                tech=M, ref='DESIGN.md section 4, C09'),
    'C01': dict(engine='M', cat='model_checking',
                text='bounded symbolic execution of the real scheduler (Work::new, want_file, run, recheck_ready, ready_dependents, BuildStates) on symbolic graphs of 2-4 steps: every wiring/role split/dirty bit/completion order/outcome and symbolic -j/-k; at each start and each dirty judgement the monitor requires every ordering producer settled, no second start, no phony start',
                note='trusted: environment models of the command runner (scripted executor: which running command finishes next and how is a symbolic choice), Progress, signal, trace; check_build_dirty replaced by a symbolic dirty bit (S-cut); hash-set iteration order explored as a symbolic permutation; failing and sampled passing traces are replayed on the native build through a scripted runner',
                tech=M + '; schedule, outcomes, -j/-k/depth symbolic', ref='DESIGN.md section 4, C01'),
    'C04': dict(engine='M', cat='model_checking',
                text='bounded symbolic execution of the real scheduler with pools: symbolic pool assignment, symbolic 64-bit pool depth and -j; at every command start the running set is checked against -j, the pool depth and the console pool; undeclared pools must surface as the `unknown pool` error',
                note='trusted: environment models of the command runner (scripted executor: which running command finishes next and how is a symbolic choice), Progress, signal, trace; check_build_dirty replaced by a symbolic dirty bit (S-cut); hash-set iteration order explored as a symbolic permutation; failing and sampled passing traces are replayed on the native build through a scripted runner',
                tech=M + '; schedule, outcomes, -j/-k/depth symbolic', ref='DESIGN.md section 4, C04'),
    'C05': dict(engine='M', cat='model_checking',
                text='bounded symbolic execution of the real scheduler with outcomes Success/Failure/Interrupted at every completion and symbolic -k: containment of failures, recording only of successes, the failure budget, completion of independent steps, and the boolean result of run()',
                note='trusted: environment models of the command runner (scripted executor: which running command finishes next and how is a symbolic choice), Progress, signal, trace; check_build_dirty replaced by a symbolic dirty bit (S-cut); hash-set iteration order explored as a symbolic permutation; failing and sampled passing traces are replayed on the native build through a scripted runner',
                tech=M + '; schedule, outcomes, -j/-k/depth symbolic', ref='DESIGN.md section 4, C05'),
    'C06': dict(engine='M', cat='model_checking',
                text="bounded symbolic execution of the real scheduler: termination of every path, unreachability of the internal `BUG` panic, and want_file's cycle error exactly for requests that contain an ordering cycle (cycles through validation edges accepted), on graphs whose inputs may name any file",
                note='trusted: environment models of the command runner (scripted executor: which running command finishes next and how is a symbolic choice), Progress, signal, trace; check_build_dirty replaced by a symbolic dirty bit (S-cut); hash-set iteration order explored as a symbolic permutation; failing and sampled passing traces are replayed on the native build through a scripted runner',
                tech=M + '; schedule, outcomes, -j/-k/depth symbolic', ref='DESIGN.md section 4, C06'),
    'C18': dict(engine='M', cat='model_checking',
                text='bounded symbolic execution of the real want_file/want_every_file/run: the set of steps considered equals the reference closure over explicit, implicit, order-only and validation inputs for every target subset; nothing outside it is examined or started',
                note='trusted: environment models of the command runner (scripted executor: which running command finishes next and how is a symbolic choice), Progress, signal, trace; check_build_dirty replaced by a symbolic dirty bit (S-cut); hash-set iteration order explored as a symbolic permutation; failing and sampled passing traces are replayed on the native build through a scripted runner',
                tech=M + '; schedule, outcomes, -j/-k/depth symbolic', ref='DESIGN.md section 4, C18'),
    'C19': dict(engine='M+K', cat='model_checking',
                text='bounded symbolic execution of the real scheduler with Progress as monitor: at every update the six counters equal the steps actually in each state, Running equals the commands executing, finished counts never decrease; tasks_run equals successful completions; Kani on StateCounts::add',
                note='trusted: environment models of the command runner (scripted executor: which running command finishes next and how is a symbolic choice), Progress, signal, trace; check_build_dirty replaced by a symbolic dirty bit (S-cut); hash-set iteration order explored as a symbolic permutation; failing and sampled passing traces are replayed on the native build through a scripted runner',
                tech=M + '; ' + K, ref='DESIGN.md section 4, C19'),
    'C07': dict(engine='M', cat='model_checking',
                text='bounded symbolic execution of the real log writer and reader over an in-memory file model: histories of up to 2 (thorough 3) '
                     'recorded steps with symbolic 64-bit hashes, a SYMBOLIC number of surviving bytes (every crash point of every write), '
                     'reload, append, reload; the solver decides on every path that the load succeeds and yields exactly the intact records',
                note='trusted: byte-list model of File/BufReader/OpenOptions (a crash leaves a byte prefix), std models; traces with a failing obligation are replayed on real files',
                tech=M + '; crash point and hashes symbolic', ref='DESIGN.md section 4, C07'),
    'C08': dict(engine='M+K', cat='model_checking',
                text='bounded symbolic execution of the real log code: records written under one manifest and loaded under an independently '
                     'chosen second manifest (symbolic producer assignment of 3 files over 2 steps, reversed numbering, symbolic hashes) against '
                     'the attribution rule of the property; concrete width families at the field-width boundaries; Kani on the integer codecs',
                note='trusted: byte-list file model, std models, Kani/CBMC; known finding: 16-bit dependency count (known_findings.txt)',
                tech=M + '; ' + K, ref='DESIGN.md section 4, C08'),
    'C12': dict(engine='M+K', cat='other',
                text='bounded symbolic execution of the real loader, error formatter, target canonicalisation and depfile reader on '
                     'symbolic bytes/offsets (z3 decides every branch and every bounds/unchecked-access/overflow/panic obligation; the call-depth '
                     'bound makes unbounded recursion a finding), a structured family of rule/build bindings referring to each other, plus '
                     'Kani/CBMC on the leaf scanners with real memory semantics; all inputs within the stated byte bounds are covered, '
                     'longer inputs are not',
                note='trusted: hand-written std models (listed per run), Kani/CBMC memory model; assume/guarantee split for the CR LF scanner invariant',
                tech=M + '; ' + K, ref='DESIGN.md section 4, C12'),
    'C13': dict(engine='K', cat='other',
                text='bounded symbolic execution (Kani/CBMC) of the real canonicalize_path: all strings of each concrete length up to the bound '
                     'over a six-byte alphabet; memory safety, length, idempotence and equality with a reference model are decided by the SAT solver, not sampled',
                note='trusted: Kani/CBMC memory model and the reference model in hooks/canon.rs; bounded by path length (quick: safe n<=6, full n<=4)',
                tech=K + ', differential against a reference model', ref='DESIGN.md section 4, C13'),
    'C14': dict(engine='K+M', cat='other',
                text='Kani/CBMC on the real BuildOuts::remove_duplicates against a first-occurrence oracle for all id vectors up to length 4 (5 thorough), and '
                     'mirsym on the real loader for manifests repeating outputs within one statement and across two (multiplicity, explicit/implicit '
                     'boundary, canon-equivalent spellings): second producer => error citing both statements; repeats => one warning each, listed once',
                note='trusted: Kani/CBMC model of Vec; std models of mirsym; captured stdout model for the warnings',
                tech=K + '; ' + M, ref='DESIGN.md section 4, C14'),
    'C15': dict(engine='M', cat='other',
                text='bounded symbolic execution of the real read_depfile/depfile::parse against a reference reading on the same symbolic buffer: '
                     'for every string of each stated length over the stated alphabet the solver shows both reject, or both accept with identical prerequisites',
                note='trusted: std models, the reference model hooks/depfile.rs::verif_spec; CR excluded from the alphabet (optional crlf feature)',
                tech=M + ', differential against a reference model', ref='DESIGN.md section 4, C15'),
}

NOT_APPLICABLE = {
}

PENDING_REASON = 'check under construction in this framework (see DESIGN.md section 8); not claimed until its check runs clean on the unchanged tree'


def main():
    props = [json.loads(l)['id'] for l in open(os.path.join(VERIF, 'properties.jsonl'))]
    checks = []
    for pid in props:
        c = CHECKS.get(pid)
        if not c:
            continue
        checks.append({
            'property_id': pid,
            'quick_cmd': './check %s --tier quick' % pid,
            'thorough_cmd': './check %s --tier thorough' % pid,
            'evidence_file': 'evidence/%s.json' % pid,
            'replay_cmd_template': './check %s --replay {path}' % pid,
            'engine': c['engine'],
            'level_claimed': {'category': c['cat'], 'text': c['text'], 'design_ref': c['ref']},
            'level_note': c['note'],
            'technique': c['tech'],
        })
    na = []
    for pid in props:
        if pid in CHECKS:
            continue
        na.append({'property_id': pid, 'reason': NOT_APPLICABLE.get(pid, PENDING_REASON)})
    man = {
        'version': 1,
        'setup_cmd': 'true',
        'hooks': {
            'guard': 'n2_verif',
            'enable': 'no hook is committed in /repo: every check copies /repo\'s current working tree to a scratch directory and appends one line '
                      '`#[cfg(any(kani, n2_verif))] include!("/verif/hooks/<module>.rs");` to each module there (lib/tree.py); the MIR dump and the native '
                      'replay build use --cfg n2_verif, Kani sets cfg(kani)',
            'baseline_off_cmd': 'cd /repo && cargo test --workspace --no-fail-fast --offline',
            'source_commits': [],
            'add_only': True,
        },
        'engines': [
            {'name': 'K', 'path': 'lib/kani.py', 'serves_properties': [p for p in props if p in CHECKS and 'K' in CHECKS[p]['engine']],
             'kind_free_text': 'Kani 0.68 / CBMC 6.11 bounded model checking of harnesses compiled inside the n2 modules'},
            {'name': 'M', 'path': 'mirsym/', 'serves_properties': [p for p in props if p in CHECKS and 'M' in CHECKS[p]['engine']],
             'kind_free_text': 'path-enumerating symbolic executor over rustc MIR of the current tree (dumped on every run), z3 as judge, native replay of models'},
        ],
        'checks': checks,
        'not_applicable': na,
        'notes': 'Checks are added property by property; known_findings.txt lists recorded findings and the fix: commits made in /repo.',
    }
    with open(os.path.join(VERIF, 'MANIFEST.json'), 'w') as f:
        json.dump(man, f, indent=1)
        f.write('\n')


if __name__ == '__main__':
    main()
