#!/bin/bash
# runs every registered quick (or thorough) command once, sequentially; prints one line per check
tier=${1:-quick}
cd /verif
for id in $(python3 -c "import json; print(' '.join(c['property_id'] for c in json.load(open('MANIFEST.json'))['checks']))"); do
  s=$(date +%s)
  out=$(./check $id --tier $tier 2>&1); rc=$?
  e=$(date +%s)
  echo "$id rc=$rc $((e-s))s $(echo "$out" | grep -E '^(OK|VIOLATION|INCONCLUSIVE)' | head -2 | cut -c1-160 | tr '\n' ' ')"
done
