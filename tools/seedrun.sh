#!/bin/bash
# usage: tools/seedrun.sh <patch.diff> <check id> [tier]   -- applies a seeded change to /repo, runs the check, restores /repo
set -u
patch=$1; pid=$2; tier=${3:-quick}
cd /repo || exit 3
if ! git diff --quiet; then echo "/repo has local changes" >&2; exit 3; fi
git apply "$patch" || exit 3
restore() { cd /repo && git checkout -- . && git clean -fdq src tests 2>/dev/null; }
trap 'restore; exit 143' TERM INT HUP
cd /verif
./check "$pid" --tier "$tier" > /tmp/seedrun.$$.out 2>&1 &
wait $!; rc=$?
out=$(cat /tmp/seedrun.$$.out); rm -f /tmp/seedrun.$$.out
restore
echo "$out" | grep -E "^(VIOLATION|KNOWN-FINDING|OK|INCONCLUSIVE)|what:" | cut -c1-400 | head -12
echo "exit=$rc"
