#!/bin/bash
# usage: tools/verify_seed4.sh <Cxx> [suffix]    -- confirms a round-4 seed left by a sub-agent in /tmp/seed4/<Cxx>/demo
#   (patch.diff, demo.sh or other demonstration driven by demo.sh, NOTES.md) in a fresh scratch worktree of /repo's HEAD:
#   (a) the demonstration passes on the unchanged tree, (b) with the patch the suite passes (71), (c) the demonstration fails.
#   A confirmed seed is stored as /verif/seeded/<Cxx>-<suffix>/.  The scratch worktree is removed afterwards.
set -u
id=$1; suf=${2:-5}
src=/tmp/seed4/$id/demo
wt=/tmp/wtv4/$id
export CARGO_NET_OFFLINE=true CARGO_TERM_COLOR=never
[ -f $src/patch.diff ] || { echo "no patch for $id"; exit 3; }
rm -rf $wt; mkdir -p /tmp/wtv4
git -C /repo worktree add --detach $wt HEAD >/dev/null 2>&1 || exit 3
cleanup() { git -C /repo worktree remove --force $wt >/dev/null 2>&1; rm -rf $wt; }
trap cleanup EXIT
mkdir -p $wt/demo && cp -r $src/. $wt/demo/
cd $wt
head=$(git rev-parse --short HEAD)
# the demonstrations refer to their own worktree path; point them at this one
grep -rl "/tmp/seed4/$id" demo 2>/dev/null | xargs -r sed -i "s#/tmp/seed4/$id#$wt#g"
( timeout 1500 bash demo/demo.sh ) > /tmp/wtv4/$id.demo0.log 2>&1; d0=$?
git apply demo/patch.diff || { echo "patch does not apply"; exit 3; }
out=$(timeout 1500 cargo test --workspace --no-fail-fast --offline 2>&1); src_rc=$?
passed=$(echo "$out" | grep -oE "test result: \w+\. [0-9]+ passed" | grep -oE "[0-9]+ passed" | awk '{s+=$1} END{print s+0}')
failed=$(echo "$out" | grep -oE "[0-9]+ failed" | awk '{s+=$1} END{print s+0}')
( timeout 1500 bash demo/demo.sh ) > /tmp/wtv4/$id.demo1.log 2>&1; d1=$?
echo "seed $id: demo(unchanged)=$d0 suite(patched) rc=$src_rc passed=$passed failed=$failed demo(patched)=$d1"
if [ $d0 -eq 0 ] && [ $src_rc -eq 0 ] && [ "$passed" -ge 71 ] && [ "$failed" -eq 0 ] && [ $d1 -ne 0 ]; then
  dst=/verif/seeded/$id-$suf
  rm -rf $dst; mkdir -p $dst
  cp -r $src/. $dst/
  cat > $dst/meta.json <<EOF
{
 "property": "$id",
 "origin": "independent sub-agent (round 4) given only the property text and a scratch worktree",
 "needs_to_manifest": "see NOTES.md",
 "confirmed_on_repo_head": "$head",
 "what_was_run": {
  "demo_unchanged_tree": "bash demo/demo.sh -> exit $d0",
  "suite_with_patch": "cargo test --workspace --no-fail-fast --offline -> $passed passed, $failed failed",
  "demo_with_patch": "bash demo/demo.sh -> exit $d1"
 },
 "caught_by": "TBD",
 "how_to_run_a_check_against_it": "tools/seedrun.sh seeded/$id-$suf/patch.diff <check id>"
}
EOF
  echo "CONFIRMED -> $dst"
else
  echo "NOT CONFIRMED (logs /tmp/wtv4/$id.demo0.log /tmp/wtv4/$id.demo1.log)"; echo "$out" | tail -15
  exit 1
fi
