// Throw-away Kani probe appended to src/parse.rs of a scratch copy (see DESIGN.md section 2).
#[cfg(kani)]
mod kani_probe {
    use super::*;

    fn fmt_stub(_args: std::fmt::Arguments<'_>) -> String {
        String::new()
    }

    fn sym_buf<const M: usize>() -> [u8; M] {
        let mut buf: [u8; M] = kani::any();
        buf[M - 1] = 0;
        buf
    }

    macro_rules! unit {
        ($name:ident, $m:expr, $unw:expr, |$p:ident| $body:expr) => {
            #[kani::proof]
            #[kani::unwind($unw)]
            #[kani::stub(std::fmt::format, fmt_stub)]
            fn $name() {
                let buf = sym_buf::<$m>();
                let mut $p = Parser::new(&buf);
                let r = $body;
                if r.is_ok() {
                    assert!($p.scanner.ofs < $m);
                }
                std::mem::forget(r);
            }
        };
    }

    unit!(u_read_eval_t_4, 5, 7, |p| p.read_eval(true));
    unit!(u_read_eval_f_4, 5, 7, |p| p.read_eval(false));
    unit!(u_read_vardef_4, 5, 7, |p| p.read_vardef());
    unit!(u_skip_comment_4, 5, 7, |p| p.skip_comment());
    unit!(u_read_ident_4, 5, 7, |p| p.read_ident());
    unit!(u_read_build_4, 5, 7, |p| p.read_build());
    unit!(u_read_eval_t_8, 9, 11, |p| p.read_eval(true));
    unit!(u_read_vardef_8, 9, 11, |p| p.read_vardef());
    unit!(u_read_build_8, 9, 11, |p| p.read_build());

    macro_rules! unit_ofs {
        ($name:ident, $m:expr, $unw:expr, |$p:ident| $body:expr) => {
            #[kani::proof]
            #[kani::unwind($unw)]
            #[kani::stub(std::fmt::format, fmt_stub)]
            fn $name() {
                let buf = sym_buf::<$m>();
                let mut $p = Parser::new(&buf);
                let ofs: usize = kani::any();
                kani::assume(ofs < $m);
                $p.scanner.ofs = ofs;
                $p.scanner.line = kani::any();
                kani::assume($p.scanner.line >= 1 && $p.scanner.line < 1000);
                let r = $body;
                if r.is_ok() {
                    assert!($p.scanner.ofs < $m);
                }
                kani::cover!(r.is_ok());
                std::mem::forget(r);
            }
        };
    }
    unit_ofs!(o_read_escape_8, 9, 11, |p| p.read_escape());
    unit_ofs!(o_read_ident_8, 9, 11, |p| p.read_ident());
    unit_ofs!(o_skip_comment_8, 9, 11, |p| p.skip_comment());
    #[kani::proof]
    #[kani::unwind(11)]
    fn o_skip_spaces_8() {
        let buf = sym_buf::<9>();
        let mut p = Parser::new(&buf);
        let ofs: usize = kani::any();
        kani::assume(ofs < 9);
        p.scanner.ofs = ofs;
        p.skip_spaces();
        assert!(p.scanner.ofs < 9);
    }
}
