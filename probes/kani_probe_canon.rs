// Throw-away Kani probe appended to src/canon.rs of a scratch copy (see DESIGN.md section 2).
#[cfg(kani)]
mod kani_probe {
    use super::*;

    fn sym_path<const N: usize>() -> String {
        let bytes: [u8; N] = kani::any();
        for i in 0..N {
            let b = bytes[i];
            kani::assume(b == b'a' || b == b'.' || b == b'/' || b == b'\\');
        }
        unsafe { String::from_utf8_unchecked(bytes.to_vec()) }
    }

    #[kani::proof]
    #[kani::unwind(6)]
    fn canon_v1_len3() {
        let mut s = sym_path::<3>();
        canonicalize_path(&mut s);
        assert!(s.len() <= 3 && s.len() >= 1);
    }

    #[kani::proof]
    #[kani::unwind(7)]
    fn canon_v1_len4() {
        let mut s = sym_path::<4>();
        canonicalize_path(&mut s);
        assert!(s.len() <= 4 && s.len() >= 1);
    }

    #[kani::proof]
    #[kani::unwind(8)]
    fn canon_v1_len5() {
        let mut s = sym_path::<5>();
        canonicalize_path(&mut s);
        assert!(s.len() <= 5 && s.len() >= 1);
    }

    #[kani::proof]
    #[kani::unwind(9)]
    fn canon_v1_len6() {
        let mut s = sym_path::<6>();
        canonicalize_path(&mut s);
        assert!(s.len() <= 6 && s.len() >= 1);
    }

    #[kani::proof]
    #[kani::unwind(11)]
    fn canon_v1_len8() {
        let mut s = sym_path::<8>();
        canonicalize_path(&mut s);
        assert!(s.len() <= 8 && s.len() >= 1);
    }

    #[kani::proof]
    #[kani::unwind(13)]
    fn canon_v1_len10() {
        let mut s = sym_path::<10>();
        canonicalize_path(&mut s);
        assert!(s.len() <= 10 && s.len() >= 1);
    }
}
