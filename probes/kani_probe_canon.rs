// Throw-away Kani probe appended to src/canon.rs of a scratch copy (see DESIGN.md section 2).
#[cfg(kani)]
mod kani_probe {
    use super::*;

    fn sym_path<const N: usize>() -> String {
        let bytes: [u8; N] = kani::any();
        for i in 0..N {
            let b = bytes[i];
            kani::assume(b == b'a' || b == b'.' || b == b'/' || b == b'\\');
        }
        unsafe { String::from_utf8_unchecked(bytes.to_vec()) }
    }

    #[kani::proof]
    #[kani::unwind(6)]
    fn canon_v1_len3() {
        let mut s = sym_path::<3>();
        canonicalize_path(&mut s);
        assert!(s.len() <= 3 && s.len() >= 1);
    }

    #[kani::proof]
    #[kani::unwind(7)]
    fn canon_v1_len4() {
        let mut s = sym_path::<4>();
        canonicalize_path(&mut s);
        assert!(s.len() <= 4 && s.len() >= 1);
    }

    #[kani::proof]
    #[kani::unwind(8)]
    fn canon_v1_len5() {
        let mut s = sym_path::<5>();
        canonicalize_path(&mut s);
        assert!(s.len() <= 5 && s.len() >= 1);
    }

    #[kani::proof]
    #[kani::unwind(9)]
    fn canon_v1_len6() {
        let mut s = sym_path::<6>();
        canonicalize_path(&mut s);
        assert!(s.len() <= 6 && s.len() >= 1);
    }

    #[kani::proof]
    #[kani::unwind(11)]
    fn canon_v1_len8() {
        let mut s = sym_path::<8>();
        canonicalize_path(&mut s);
        assert!(s.len() <= 8 && s.len() >= 1);
    }

    #[kani::proof]
    #[kani::unwind(13)]
    fn canon_v1_len10() {
        let mut s = sym_path::<10>();
        canonicalize_path(&mut s);
        assert!(s.len() <= 10 && s.len() >= 1);
    }

    fn is_sep(b: u8) -> bool {
        b == b'/' || b == b'\\'
    }

    /// reference: separate output buffer, explicit component stack
    fn spec<const N: usize>(inp: &[u8; N]) -> ([u8; N], usize) {
        let mut out = [0u8; N];
        let mut n = 0usize;
        let mut starts = [0usize; N];
        let mut depth = 0usize;
        let mut i = 0usize;
        if is_sep(inp[0]) {
            out[0] = inp[0];
            n = 1;
            i = 1;
        }
        while i < N {
            // component [i, j)
            let mut j = i;
            while j < N && !is_sep(inp[j]) {
                j += 1;
            }
            let has_sep = j < N;
            let len = j - i;
            if len == 0 {
                // empty component
            } else if len == 1 && inp[i] == b'.' {
                // "." dropped
            } else if len == 2 && inp[i] == b'.' && inp[i + 1] == b'.' {
                if depth > 0 {
                    depth -= 1;
                    n = starts[depth];
                } else {
                    out[n] = b'.';
                    out[n + 1] = b'.';
                    n += 2;
                    if has_sep {
                        out[n] = inp[j];
                        n += 1;
                    }
                }
            } else {
                starts[depth] = n;
                depth += 1;
                let mut k = i;
                while k < j {
                    out[n] = inp[k];
                    n += 1;
                    k += 1;
                }
                if has_sep {
                    out[n] = inp[j];
                    n += 1;
                }
            }
            i = j + 1;
        }
        if n == 0 {
            out[0] = b'.';
            n = 1;
        }
        (out, n)
    }

    macro_rules! full {
        ($name:ident, $n:expr, $unw:expr) => {
            #[kani::proof]
            #[kani::unwind($unw)]
            fn $name() {
                let bytes: [u8; $n] = kani::any();
                for i in 0..$n {
                    let b = bytes[i];
                    kani::assume(b == b'a' || b == b'.' || b == b'/' || b == b'\\');
                }
                let (want, wn) = spec::<$n>(&bytes);
                let mut s = unsafe { String::from_utf8_unchecked(bytes.to_vec()) };
                canonicalize_path(&mut s);
                assert!(s.len() == wn);
                let got = s.as_bytes();
                for i in 0..$n {
                    if i < wn {
                        assert!(got[i] == want[i]);
                    }
                }
                canonicalize_path(&mut s);
                assert!(s.len() == wn);
                let got = s.as_bytes();
                for i in 0..$n {
                    if i < wn {
                        assert!(got[i] == want[i]);
                    }
                }
            }
        };
    }
    full!(canon_full_4, 4, 7);
    full!(canon_full_6, 6, 9);
}
