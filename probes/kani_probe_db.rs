// Throw-away Kani probe appended to src/db.rs of a scratch copy (see DESIGN.md section 2).
// Also required there: #[cfg(not(kani))] on `use std::fs::File;`, `Writer::create`, `open`, and `#[cfg(kani)] use self::kani_io::File;`.
#[cfg(kani)]
impl Writer {
    pub fn kani_new() -> Self {
        Writer::from_opened(IdMap::default(), File::new())
    }
}

#[cfg(kani)]
mod kani_io {
    pub const CAP: usize = 64;
    pub struct File {
        pub buf: [u8; CAP],
        pub len: usize,
        pub pos: usize,
    }
    impl File {
        pub fn new() -> Self {
            File { buf: [0; CAP], len: 0, pos: 0 }
        }
    }
    impl std::io::Write for File {
        fn write(&mut self, data: &[u8]) -> std::io::Result<usize> {
            for &b in data {
                assert!(self.len < CAP);
                self.buf[self.len] = b;
                self.len += 1;
            }
            Ok(data.len())
        }
        fn write_all(&mut self, data: &[u8]) -> std::io::Result<()> {
            self.write(data).map(|_| ())
        }
        fn flush(&mut self) -> std::io::Result<()> {
            Ok(())
        }
    }
    impl std::io::Read for File {
        fn read(&mut self, out: &mut [u8]) -> std::io::Result<usize> {
            let mut n = 0;
            while n < out.len() && self.pos < self.len {
                out[n] = self.buf[self.pos];
                self.pos += 1;
                n += 1;
            }
            Ok(n)
        }
        fn read_exact(&mut self, out: &mut [u8]) -> std::io::Result<()> {
            if self.len - self.pos < out.len() {
                self.pos = self.len;
                return Err(std::io::Error::from(std::io::ErrorKind::UnexpectedEof));
            }
            for b in out.iter_mut() {
                *b = self.buf[self.pos];
                self.pos += 1;
            }
            Ok(())
        }
    }
}

#[cfg(kani)]
pub fn open(_path: &Path, _graph: &mut Graph, _hashes: &mut Hashes) -> anyhow::Result<Writer> {
    Ok(Writer::from_opened(IdMap::default(), File::new()))
}

#[cfg(kani)]
mod kani_probe {
    use super::*;
    use crate::graph::{Build, BuildIns, BuildOuts, FileLoc};

    fn fmt_stub(_args: std::fmt::Arguments<'_>) -> String {
        String::new()
    }
    fn print_stub(_args: std::fmt::Arguments<'_>) {}
    fn stub_format_err(_args: std::fmt::Arguments<'_>) -> ::anyhow::Error {
        kani::assume(false);
        unreachable!()
    }

    fn mk_graph() -> Graph {
        let mut graph = Graph::default();
        let a = graph.files.id_from_canonical("a".to_owned());
        let b = graph.files.id_from_canonical("b".to_owned());
        let h = graph.files.id_from_canonical("h".to_owned());
        let filename = std::rc::Rc::new(std::path::PathBuf::new());
        for (i, out) in [a, b].into_iter().enumerate() {
            let ins = BuildIns { ids: vec![h], explicit: 0, implicit: 0, order_only: 1 };
            let outs = BuildOuts { ids: vec![out], explicit: 1 };
            let mut build = Build::new(FileLoc { filename: filename.clone(), line: i }, ins, outs);
            build.cmdline = Some(String::new());
            let r = graph.add_build(build);
            std::mem::forget(r);
        }
        graph
    }

    #[kani::proof]
    #[kani::unwind(8)]
    #[kani::stub(std::fmt::format, fmt_stub)]
    #[kani::stub(std::io::_print, print_stub)]
    #[kani::stub(::anyhow::__private::format_err, stub_format_err)]
    fn db_torn() {
        let mut g1 = mk_graph();
        let h = FileId::from(2usize);
        g1.builds[BuildId::from(1usize)].set_discovered_ins(vec![h]);
        let mut w = Writer::from_opened(IdMap::default(), File::new());
        assert!(w.write_signature().is_ok());
        let h0: u64 = kani::any();
        let h1: u64 = kani::any();
        assert!(w.write_build(&g1, BuildId::from(0usize), BuildHash(h0)).is_ok());
        let end0 = w.w.len;
        assert!(w.write_build(&g1, BuildId::from(1usize), BuildHash(h1)).is_ok());
        let end1 = w.w.len;
        // crash: only a prefix survives
        let cut: usize = kani::any();
        kani::assume(cut <= end1);
        let mut f = File::new();
        f.buf = w.w.buf;
        f.len = cut;
        let mut g2 = mk_graph();
        let mut hashes = Hashes::default();
        let r = Reader::read(&mut f, &mut g2, &mut hashes);
        assert!(r.is_ok()); // C07: a torn log still loads
        let got0 = hashes.get(BuildId::from(0usize));
        let got1 = hashes.get(BuildId::from(1usize));
        if cut >= end0 {
            assert!(got0 == Some(BuildHash(h0)));
        } else {
            assert!(got0.is_none());
        }
        if cut >= end1 {
            assert!(got1 == Some(BuildHash(h1)));
        } else {
            assert!(got1.is_none());
        }
        std::mem::forget(r);
        std::mem::forget(hashes);
        std::mem::forget(g1);
        std::mem::forget(g2);
    }
}
