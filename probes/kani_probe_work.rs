// Throw-away Kani probe appended to src/work.rs of a scratch copy (see DESIGN.md section 2).
#[cfg(kani)]
mod kani_probe {
    use super::*;
    use crate::densemap::Index;
    use crate::graph::{Build, BuildIns, BuildOuts, File, FileLoc};

    struct NullProgress;
    impl Progress for NullProgress {
        fn update(&self, _counts: &StateCounts) {}
        fn task_started(&self, _id: BuildId, _build: &Build) {}
        fn task_output(&self, _id: BuildId, _line: Vec<u8>) {}
        fn task_finished(&self, _id: BuildId, _build: &Build, _result: &task::TaskResult) {}
        fn log(&self, _msg: &str) {}
    }

    const NB: usize = 2; // builds
    const NS: usize = 1; // source files
    const NF: usize = NS + NB;
    const K: usize = 2; // input slots per build

    struct Mon {
        starts: [u8; NB],
        running: [bool; NB],
        settled: [bool; NB],
        nrunning: usize,
        max_running: usize,
    }
    static mut MON: Mon = Mon {
        starts: [0; NB],
        running: [false; NB],
        settled: [false; NB],
        nrunning: 0,
        max_running: 0,
    };
    static mut PRODUCER: [Option<usize>; NF] = [None; NF];

    fn fmt_stub(_args: std::fmt::Arguments<'_>) -> String {
        String::new()
    }
    fn stub_register_sigint() {}
    fn stub_create_parent_dirs<'a: 'a>(_w: &Work<'a>, _ids: &[FileId]) -> anyhow::Result<()> {
        Ok(())
    }
    fn stub_check_build_dirty<'a: 'a>(w: &mut Work<'a>, id: BuildId) -> anyhow::Result<bool> {
        let build = &w.graph.builds[id];
        unsafe {
            for &f in build.ordering_ins() {
                if let Some(p) = PRODUCER[f.index()] {
                    assert!(MON.settled[p]);
                }
            }
        }
        if build.cmdline.is_none() {
            return Ok(false);
        }
        Ok(kani::any())
    }
    fn stub_record_finished<'a: 'a>(
        _w: &mut Work<'a>,
        _id: BuildId,
        _result: task::TaskResult,
    ) -> anyhow::Result<()> {
        Ok(())
    }
    fn stub_start(r: &mut task::Runner, id: BuildId, build: &Build) {
        unsafe {
            let i = id.index();
            assert!(MON.starts[i] == 0);
            MON.starts[i] += 1;
            for &f in build.ordering_ins() {
                if let Some(p) = PRODUCER[f.index()] {
                    assert!(MON.settled[p]);
                }
            }
            MON.running[i] = true;
            MON.nrunning += 1;
            if MON.nrunning > MON.max_running {
                MON.max_running = MON.nrunning;
            }
        }
        r.running += 1;
    }
    fn stub_wait(r: &mut task::Runner, _output: impl FnMut(BuildId, Vec<u8>)) -> task::FinishedTask {
        let i: usize = kani::any();
        kani::assume(i < NB);
        unsafe {
            kani::assume(MON.running[i]);
            MON.running[i] = false;
            MON.nrunning -= 1;
        }
        r.running -= 1;
        let ok: bool = kani::any();
        if ok {
            unsafe {
                MON.settled[i] = true;
            }
        }
        let t: std::time::Instant = unsafe { std::mem::zeroed() };
        task::FinishedTask {
            tid: 0,
            buildid: BuildId::from(i),
            span: (t, t),
            result: task::TaskResult {
                termination: if ok {
                    process::Termination::Success
                } else {
                    process::Termination::Failure
                },
                output: Vec::new(),
                discovered_deps: None,
            },
        }
    }

    fn sym_graph() -> Graph {
        let mut graph = Graph::default();
        for i in 0..NF {
            graph.files.by_id.push(File {
                name: String::new(),
                input: None,
                dependents: Vec::new(),
            });
            let _ = i;
        }
        let filename = std::rc::Rc::new(std::path::PathBuf::new());
        for b in 0..NB {
            let out = NS + b;
            let mut ids = Vec::with_capacity(K);
            for _ in 0..K {
                let f: usize = kani::any();
                kani::assume(f < out);
                ids.push(FileId::from(f));
            }
            let explicit: usize = kani::any();
            let implicit: usize = kani::any();
            let order_only: usize = kani::any();
            kani::assume(explicit <= K && implicit <= K && order_only <= K);
            kani::assume(explicit + implicit + order_only <= K);
            let ins = BuildIns {
                ids,
                explicit,
                implicit,
                order_only,
            };
            let outs = BuildOuts {
                ids: vec![FileId::from(out)],
                explicit: 1,
            };
            let mut build = Build::new(
                FileLoc {
                    filename: filename.clone(),
                    line: b,
                },
                ins,
                outs,
            );
            if kani::any() {
                build.cmdline = Some(String::new());
            }
            unsafe {
                PRODUCER[out] = Some(b);
            }
            let r = graph.add_build(build);
            kani::assume(r.is_ok());
            std::mem::forget(r);
        }
        graph
    }

    #[kani::proof]
    #[kani::unwind(6)]
    #[kani::stub(std::io::_print, print_stub)]
    #[kani::stub(std::fmt::format, fmt_stub)]
    #[kani::stub(crate::signal::register_sigint, stub_register_sigint)]
    #[kani::stub(Work::create_parent_dirs, stub_create_parent_dirs)]
    #[kani::stub(Work::check_build_dirty, stub_check_build_dirty)]
    #[kani::stub(Work::record_finished, stub_record_finished)]
    #[kani::stub(task::Runner::start, stub_start)]
    #[kani::stub(task::Runner::wait, stub_wait)]
    #[kani::stub(anyhow::__private::format_err, stub_format_err)]
    #[kani::stub(anyhow::Error::construct_from_adhoc, stub_adhoc_new)]
    fn sched_probe() {
        let graph = sym_graph();
        let dbw = db::Writer::kani_new();
        let progress = NullProgress;
        let par: usize = kani::any();
        kani::assume(par >= 1 && par <= 2);
        let options = Options {
            failures_left: Some(1),
            parallelism: par,
            explain: false,
            adopt: false,
        };
        let mut work = Work::new(
            graph,
            Hashes::default(),
            dbw,
            &options,
            &progress,
            SmallMap::default(),
        );
        let target = FileId::from(NF - 1);
        let r = work.want_file(target);
        assert!(r.is_ok());
        let res = work.run();
        unsafe {
            assert!(MON.max_running <= par);
        }
        match &res {
            Ok(true) => unsafe {
                // the target's producer is settled
                assert!(MON.settled[NB - 1] || MON.starts[NB - 1] == 0);
            },
            _ => {}
        }
        std::mem::forget(res);
        std::mem::forget(work);
    }

    fn stub_format_err(_args: std::fmt::Arguments<'_>) -> anyhow::Error {
        kani::assume(false);
        unreachable!()
    }
    fn stub_adhoc_new<M>(_m: M, _bt: Option<std::backtrace::Backtrace>) -> anyhow::Error
    where
        M: std::fmt::Display + std::fmt::Debug + Send + Sync + 'static,
    {
        kani::assume(false);
        unreachable!()
    }

    #[kani::proof]
    #[kani::unwind(6)]
    fn probe_runner_new() {
        let r = task::Runner::new(2);
        assert!(r.can_start_more());
        std::mem::forget(r);
    }

    #[kani::proof]
    #[kani::unwind(5)]
    #[kani::stub(std::io::_print, print_stub)]
    #[kani::stub(std::fmt::format, fmt_stub)]
    #[kani::stub(anyhow::__private::format_err, stub_format_err)]
    #[kani::stub(anyhow::Error::construct_from_adhoc, stub_adhoc_new)]
    fn probe_want() {
        let graph = sym_graph();
        let mut bs = BuildStates::new(graph.builds.next_id(), SmallMap::default());
        let mut stack = Vec::new();
        let r = bs.want_file(&graph, &mut stack, FileId::from(NF - 1));
        assert!(r.is_ok());
        assert!(bs.get(BuildId::from(NB - 1)) != BuildState::Unknown);
        std::mem::forget(r);
        std::mem::forget(bs);
        std::mem::forget(graph);
    }

    fn print_stub(_args: std::fmt::Arguments<'_>) {}
    fn bt_stub() -> std::backtrace::Backtrace {
        std::backtrace::Backtrace::disabled()
    }

    fn mk_err(flag: bool) -> anyhow::Result<u32> {
        if flag {
            anyhow::bail!("bad {}", 3);
        }
        Ok(1)
    }
    fn mk_err2(flag: bool) -> anyhow::Result<u32> {
        if flag {
            let s = String::new();
            anyhow::bail!(s);
        }
        Ok(1)
    }

    #[kani::proof]
    #[kani::unwind(4)]
    #[kani::stub(std::fmt::format, fmt_stub)]
    #[kani::stub(std::backtrace::Backtrace::capture, bt_stub)]
    fn probe_anyhow() {
        let r = mk_err(kani::any());
        let r2 = mk_err2(kani::any());
        if let (Ok(a), Ok(b)) = (&r, &r2) {
            assert!(*a + *b == 2);
        }
    }
}
