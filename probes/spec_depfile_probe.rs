// Throw-away reference model appended to src/depfile.rs of a scratch copy and compiled with --cfg n2_verif so that its MIR
// is in the same dump as depfile::parse (see DESIGN.md section 2, depdiff.py).
#[cfg(n2_verif)]
pub mod spec {
    //! Reference reading of a Makefile-style depfile, written from the property
    //! statement (C15), in the restricted subset (while loops, indexing, Vec::push).
    pub struct Entry {
        pub t0: usize,
        pub t1: usize,
        pub deps: Vec<(usize, usize)>,
    }

    /// number of bytes of horizontal white space at i: ' ' or backslash-newline
    fn ws(buf: &[u8], i: usize) -> usize {
        if buf[i] == b' ' {
            return 1;
        }
        if buf[i] == b'\\' && buf[i + 1] == b'\n' {
            return 2;
        }
        0
    }

    fn token_end(buf: &[u8], mut i: usize) -> usize {
        while buf[i] != 0 && buf[i] != b'\n' && ws(buf, i) == 0 {
            i += 1;
        }
        i
    }

    /// buf is NUL-terminated.  None = malformed.
    pub fn parse(buf: &[u8]) -> Option<Vec<Entry>> {
        let mut entries: Vec<Entry> = Vec::new();
        let mut i = 0;
        loop {
            // blank lines and leading white space
            loop {
                if buf[i] == b'\n' {
                    i += 1;
                } else if ws(buf, i) > 0 {
                    i += ws(buf, i);
                } else {
                    break;
                }
            }
            if buf[i] == 0 {
                return Some(entries);
            }
            let t0 = i;
            i = token_end(buf, i);
            let mut t1 = i;
            if buf[t1 - 1] == b':' {
                t1 -= 1;
            } else {
                while ws(buf, i) > 0 {
                    i += ws(buf, i);
                }
                if buf[i] != b':' {
                    return None;
                }
                i += 1;
            }
            if t1 == t0 {
                return None; // empty target
            }
            let mut deps: Vec<(usize, usize)> = Vec::new();
            loop {
                while ws(buf, i) > 0 {
                    i += ws(buf, i);
                }
                if buf[i] == 0 || buf[i] == b'\n' {
                    break;
                }
                let d0 = i;
                i = token_end(buf, i);
                deps.push((d0, i));
            }
            entries.push(Entry { t0, t1, deps });
        }
    }
}
