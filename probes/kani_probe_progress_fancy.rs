// Throw-away Kani probe appended to src/progress_fancy.rs of a scratch copy (see DESIGN.md section 2).
#[cfg(kani)]
mod kani_probe {
    use super::*;
    #[kani::proof]
    #[kani::unwind(42)]
    fn bar_40() {
        let mut counts = StateCounts::default();
        let states = [
            BuildState::Want,
            BuildState::Ready,
            BuildState::Queued,
            BuildState::Running,
            BuildState::Done,
            BuildState::Failed,
        ];
        for st in states {
            let c: u16 = kani::any();
            kani::assume(c <= 1000);
            counts.add(st, c as isize);
        }
        let bar = progress_bar(&counts, 40);
        assert!(bar.len() == 40);
    }

    #[kani::proof]
    #[kani::unwind(6)]
    fn truncate_sym() {
        // 2-byte + 3-byte + 1-byte + 4-byte chars
        let s = "\u{e9}\u{2501}a\u{1f600}";
        let max: usize = kani::any();
        let t = truncate(s, max);
        assert!(t.len() <= max || t.len() == s.len());
        assert!(s.is_char_boundary(t.len()));
    }
}
