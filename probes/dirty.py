#!/usr/bin/env python3
"""Spike: C02/C03 one-step kernel — real MIR of check_build_dirty + hash_build with a recording hasher."""
import sys, re, time, collections, os
import z3
import mirsym as M
from mirsym import *
import sched as S
import dbspike as D
from sched import opt_none, opt_some, vec, fileid, buildid, densemap, string, unwrap_ref

# files: 0 = explicit input (source), 1 = order-only input (source), 2 = output
NAMES = ['in', 'oo', 'out']
NFILES = 3

def mk_graph():
    files = [Agg('File', [string(n), opt_none(), vec([])]) for n in NAMES]
    ins = Agg('BuildIns', [vec([fileid(0), fileid(1)]), IntV(64, 1), IntV(64, 0), IntV(64, 1)])
    outs = Agg('BuildOuts', [vec([fileid(2)]), IntV(64, 1)])
    b = Agg('Build', [Opaque('loc'), opt_none(), opt_some(string('cc')), opt_none(), BoolV(False),
                      opt_none(), opt_none(), ins, vec([]), outs, BoolV(False), BoolV(False)])
    files[2].fields[1] = opt_some(buildid(0))
    files[0].fields[2].fields.append(buildid(0))
    files[1].fields[2].fields.append(buildid(0))
    return Agg('Graph', [densemap([b]), Agg('GraphFiles', [densemap(files), Agg('NameMap', [])])])

def mtime(tag, i):
    return Agg('MTime', [Agg('SystemTime', [IntV(64, z3.BitVec(f'{tag}_s{i}', 64), True), IntV(32, z3.BitVec(f'{tag}_n{i}', 32))])], 'Stamp')

# ---- recording hasher
class HState:
    def __init__(self):
        self.finished = []   # (shape, items, hvar)

def m_hasher_default(I, args, callee):
    return Agg('DefaultHasher', [[]])

def h_items(I, hr):
    h = unwrap_ref(I, hr)
    return h.fields[0]

def m_hash_str(I, args, callee):
    s, hr = args
    s = unwrap_ref(I, s) if isinstance(s, Ref) else s
    if isinstance(s, Agg) and s.kind == 'String':
        v = s.fields[0]
        s = SliceRef(Cell(v), (), 0, len(v.fields))
    it = h_items(I, hr)
    it.append(('strlen', IntV(64, s.len)))
    for b in M.elems(I, s):
        it.append(('byte', b))
    it.append(('byte', IntV(8, 0xff)))
    return UNIT

def m_hash_systemtime(I, args, callee):
    t, hr = args
    t = unwrap_ref(I, t)
    it = h_items(I, hr)
    it.append(('secs', t.fields[0]))
    it.append(('nanos', t.fields[1]))
    return UNIT

def m_write_u8(I, args, callee):
    hr, b = args
    h_items(I, hr).append(('byte', b))
    return UNIT

def m_hasher_finish(I, args, callee):
    items = list(h_items(I, args[0]))
    hs = I.hstate
    hv = z3.BitVec(f'hash{len(hs.finished)}', 64)
    shape = tuple((k, v.w) for k, v in items)
    for sh, its, other in hs.finished:
        if sh == shape:
            eqs = [a[1].z() == b[1].z() for a, b in zip(its, items)]
            I.solver.add((other == hv) == z3.And(eqs) if eqs else (other == hv))   # collision-free SipHash assumed
        else:
            I.solver.add(other != hv)
    hs.finished.append((shape, items, hv))
    return IntV(64, hv)

def m_stat(I, args, callee):
    # environment: the file system of the *current* invocation
    p = args[0]
    name = p.parts[0]
    i = NAMES.index(name)
    missing = z3.Bool(f'missing{i}')
    if I.branch_bool(BoolV(missing)):
        return Agg('Result', [Agg('MTime', [], 'Missing')], 'Ok')
    return Agg('Result', [mtime('cur', i)], 'Ok')

def m_file_path(I, args, callee):
    f = unwrap_ref(I, args[0])
    nm = bytes(b.v for b in f.fields[0].fields[0].fields).decode()
    return Opaque('Path', (nm,))

def m_map_err(I, args, callee):
    return args[0]

def m_dm_lookup(I, args, callee):
    dm = unwrap_ref(I, args[0])
    k = args[1].fields[0].v
    v = dm.fields[0].fields
    if k < len(v):
        return opt_some(Ref(Cell(dm.fields[0]), (('f', k),)))
    return opt_none()

def m_set_grow(I, args, callee):
    dm = unwrap_ref(I, args[0])
    k = args[1].fields[0].v
    v = dm.fields[0].fields
    while len(v) <= k:
        v.append(args[3])
    v[k] = args[2]
    return UNIT

def m_mtime_eq(I, args, callee):
    a, b = unwrap_ref(I, args[0]), unwrap_ref(I, args[1])
    if a.variant != b.variant:
        return BoolV(False)
    if a.variant == 'Missing':
        return BoolV(True)
    ta, tb = a.fields[0], b.fields[0]
    return BoolV(z3.And(ta.fields[0].z() == tb.fields[0].z(), ta.fields[1].z() == tb.fields[1].z()))

def m_unwrap_or_else(I, args, callee):
    o = args[0]
    if o.variant == 'Some':
        return o.fields[0]
    I.failures.append(('panic: no state for file (hash of unstat()ed file)', I.model_now()))
    raise PathEnd('panic')

def m_string_as_str(I, args, callee):
    s = unwrap_ref(I, args[0])
    v = s.fields[0]
    return SliceRef(Cell(v), (), 0, len(v.fields))

def m_hashes_get(I, args, callee):
    hs = unwrap_ref(I, args[0])
    return hs.fields[0]

def m_buildhash_ne(I, args, callee):
    a, b = unwrap_ref(I, args[0]), unwrap_ref(I, args[1])
    r = I.binop('Ne', a.fields[0], b.fields[0])
    return r

EXTRA = [
    (r'^<DefaultHasher as Default>::default$', m_hasher_default),
    (r'^<str as Hash>::hash::<DefaultHasher>$', m_hash_str),
    (r'^<SystemTime as Hash>::hash::<DefaultHasher>$', m_hash_systemtime),
    (r'^<DefaultHasher as Hasher>::write_u8$', m_write_u8),
    (r'^<DefaultHasher as Hasher>::finish$', m_hasher_finish),
    (r'^graph::stat$', m_stat),
    (r'^graph::File::path$', m_file_path),
    (r'^Result::<graph::MTime, std::io::Error>::map_err::', m_map_err),
    (r'^DenseMap::<graph::FileId, Option<graph::MTime>>::lookup$', m_dm_lookup),
    (r'^DenseMap::<graph::FileId, Option<graph::MTime>>::set_grow$', m_set_grow),
    (r'^<graph::MTime as PartialEq>::eq$', m_mtime_eq),
    (r'^Option::<graph::MTime>::unwrap_or_else::', m_unwrap_or_else),
    (r'^Option::<Option<graph::MTime>>::unwrap_or$', S.m_unwrap_or),
    (r'^String::as_str$', m_string_as_str),
    (r'^graph::Hashes::get$', m_hashes_get),
    (r'^<BuildHash as PartialEq>::ne$', m_buildhash_ne),
]

def main():
    fns = parse_mir(os.environ.get('N2MIR', '/tmp/s/n2.mir'), os.environ.get('N2MIRS', '/tmp/s/n2s.mir'))
    I = Interp(fns, M.src_enums(M.SRC_ROOT))
    I.enums['MTime'] = ['Missing', 'Stamp']
    I.named_consts = {}
    for line in open(os.environ.get('N2MIR', '/tmp/s/n2.mir')):
        m = re.match(r'^const ([\w:]+): \w+ = const (.*);$', line)
        if m:
            I.named_consts[m.group(1)] = m.group(2)
    I.models = EXTRA + D.EXTRA + S.EXTRA + M.MODELS
    # remove the S-cut stub of check_build_dirty: here it is the code under test
    I.models = [(p, f) for (p, f) in I.models if 'check_build_dirty' not in p]
    def fn(pat):
        c = [f for f in fns if re.search(pat, f.name)]
        assert len(c) == 1, (pat, [f.name for f in c])
        return c[0]
    hash_build = fn(r'^hash_build$')
    check_dirty = fn(r'::check_build_dirty$')
    work = [[]]
    npaths = 0
    ends = collections.Counter()
    fails = {}
    t0 = time.time()
    while work:
        prefix = work.pop()
        I.start_path(prefix)
        I.hstate = HState()
        try:
            g = mk_graph()
            gc = Cell(g)
            build = g.fields[0].fields[0].fields[0]
            # recorded state: the step last succeeded with mtimes rec_i on all three files
            rec_fs = Agg('FileState', [densemap([opt_some(mtime('rec', i)) for i in range(NFILES)])])
            have_record = I.decide([(True, z3.Bool('have_record')), (False, z3.Not(z3.Bool('have_record')))])
            hashes_inner = opt_none()
            if have_record:
                h = I.call(hash_build, [Ref(gc, (('f', 1),)), Ref(Cell(rec_fs), ()), Ref(Cell(build), ())])
                hashes_inner = opt_some(h)
            hashes = Agg('Hashes', [hashes_inner])
            fs = Agg('FileState', [densemap([opt_none() for _ in range(NFILES)])])
            options = Agg('Options', [opt_none(), IntV(64, 1), BoolV(False), BoolV(False)])
            w = Agg('Work', [g, Opaque('db'), Opaque('progress'), options, fs, hashes, Opaque('bs'), IntV(64, 0)])
            res = I.call(check_dirty, [Ref(Cell(w), ()), buildid(0)])
            kind = res.variant + (':' + repr(res.fields[0]) if res.variant == 'Ok' else ':' + repr(res.fields[0].parts)[:60])
            ends[kind] += 1
            miss = [z3.Bool(f'missing{i}') for i in range(NFILES)]
            def same(i):
                return z3.And(z3.BitVec(f'rec_s{i}', 64) == z3.BitVec(f'cur_s{i}', 64),
                              z3.BitVec(f'rec_n{i}', 32) == z3.BitVec(f'cur_n{i}', 32))
            relevant_same = z3.And(same(0), same(2))        # explicit input + output; NOT the order-only input
            nothing_missing = z3.And(z3.Not(miss[0]), z3.Not(miss[2]))
            if res.variant == 'Ok':
                clean = res.fields[0].v is False
                if clean:
                    # C02: clean only if a record exists, nothing relevant is missing, every relevant component equal
                    I.oblige(BoolV(bool(have_record)), 'C02: clean without a record')
                    I.oblige(BoolV(nothing_missing), 'C02: clean although a dirtying input/output is missing')
                    I.oblige(BoolV(relevant_same), 'C02: clean although a relevant name/mtime differs')
                else:
                    # C03: dirty only for a reason
                    reason = z3.Or(z3.Not(z3.BoolVal(bool(have_record))), z3.Not(nothing_missing), z3.Not(relevant_same))
                    I.oblige(BoolV(reason), 'C03: dirty although record present, nothing missing, all relevant mtimes equal')
        except PathEnd as e:
            ends['end:' + str(e).split(':')[0]] += 1
        npaths += 1
        for what, m in I.failures:
            fails.setdefault(what, m)
        work.extend(I.pending)
    print(f'C02/C03 kernel: paths={npaths} time={time.time()-t0:.1f}s queries={I.stats["queries"]} ends={dict(ends)}')
    for what, m in fails.items():
        print('  FAIL:', what)
        if m is not None:
            print('       model:', {str(d): m[d] for d in m.decls() if not str(d).startswith('hash')})

if __name__ == '__main__':
    try:
        main()
    except Unsupported as e:
        print('UNSUPPORTED:', e)
        sys.exit(2)
