#!/usr/bin/env python3
"""Spike: scheduler harness S-cut over real MIR of work.rs with mirsym."""
import sys, re, time, collections
import z3
import mirsym as M
from mirsym import *

NB = int(sys.argv[1]) if len(sys.argv) > 1 else 2
NS = 1
K = 2
NF = NS + NB
MUT = sys.argv[2] if len(sys.argv) > 2 else ''

def opt_none():
    return Agg('Option', [], 'None')
def opt_some(v):
    return Agg('Option', [v], 'Some')
def vec(items):
    return Agg('Vec', list(items))
def fileid(i):
    return Agg('FileId', [IntV(32, i)])
def buildid(i):
    return Agg('BuildId', [IntV(32, i)])
def densemap(items):
    return Agg('DenseMap', [vec(items), Agg('PhantomData', [])])
def string(s):
    return Agg('String', [vec([IntV(8, b) for b in s.encode()])])

class Mon:
    pass

def choose(I, name, n):
    """symbolic choice in 0..n-1, concretised by solver-decided fork"""
    v = z3.BitVec(name, 8)
    return I.decide([(i, v == i) for i in range(n)])

def mk_state(I):
    mon = Mon()
    I.mon = mon
    mon.starts = [0] * NB
    mon.running = [False] * NB
    mon.settled = [False] * NB
    mon.failed = [False] * NB
    mon.nrunning = 0
    mon.events = []
    files = []
    for i in range(NF):
        files.append(Agg('File', [string(f'f{i}'), opt_none(), vec([])]))
    builds = []
    mon.order_ins = []
    mon.phony = []
    for b in range(NB):
        out = NS + b
        if MUT == 'fanin':
            ids = [NS + 0, NS + 1] if b == 2 else [0, 0]
        else:
            ids = [choose(I, f'in{b}_{k}', out) for k in range(K)]
        # split of the K slots: explicit / implicit / order_only / validation
        splits = [(e, i, o) for e in range(K + 1) for i in range(K + 1 - e) for o in range(K + 1 - e - i)]
        if __import__('os').environ.get('SPLITS') == 'ordval':
            splits = [(e, 0, 0) for e in range(K + 1)]
        sp = splits[choose(I, f'split{b}', len(splits))]
        e, im, oo = sp
        phony = choose(I, f'phony{b}', 2) == 1
        mon.phony.append(phony)
        mon.order_ins.append(ids[:e + im + oo])
        ins = Agg('BuildIns', [vec([fileid(x) for x in ids]), IntV(64, e), IntV(64, im), IntV(64, oo)])
        outs = Agg('BuildOuts', [vec([fileid(out)]), IntV(64, 1)])
        build = Agg('Build', [Opaque('loc'), opt_none(), opt_none() if phony else opt_some(string('c')),
                              opt_none(), BoolV(False), opt_none(), opt_none(), ins, vec([]), outs,
                              BoolV(False), BoolV(False)])
        builds.append(build)
        files[out].fields[1] = opt_some(buildid(b))
        for x in set(ids):
            files[x].fields[2].fields.append(buildid(b))
    mon.producer = [None] * NS + list(range(NB))
    graph = Agg('Graph', [densemap(builds), Agg('GraphFiles', [densemap(files), Opaque('by_name')])])
    par = 1 + choose(I, 'par', 2)
    mon.par = par
    kfail = choose(I, 'k', 2)  # 0 -> Some(1), 1 -> None
    options = Agg('Options', [opt_some(IntV(64, 1)) if kfail == 0 else opt_none(), IntV(64, par), BoolV(False), BoolV(False)])
    pools = Agg('SmallMap', [vec([Agg('tuple', [string(''), Agg('PoolState', [Agg('VecDeque', []), IntV(64, 0), IntV(64, 0)])])])])
    bs = Agg('BuildStates', [densemap([Agg('BuildState', [], 'Unknown') for _ in range(NB)]),
                             Agg('StateCounts', [Agg('array', [IntV(64, 0) for _ in range(6)])]),
                             IntV(64, 0), Agg('VecDeque', []), pools])
    work = Agg('Work', [graph, Opaque('db'), Opaque('progress'), options, Opaque('file_state'),
                        Opaque('hashes'), bs, IntV(64, 0)])
    return work

# ---- extra models
def unwrap_ref(I, r):
    while isinstance(r, Ref):
        r = I.load(r.cell, r.path)
    return r

def m_dm_index(I, args, callee):
    dm_ref, key = args
    dm = unwrap_ref(I, dm_ref)
    idx = key.fields[0]
    i = I.conc_index(idx, len(dm.fields[0].fields), 'densemap index')
    return Ref(Cell(dm.fields[0]), (('f', i),))

def m_unit(I, args, callee):
    return UNIT
def m_false(I, args, callee):
    return BoolV(False)
def m_ok_unit(I, args, callee):
    return Agg('Result', [UNIT], 'Ok')

def m_runner_new(I, args, callee):
    return Agg('Runner', [Opaque('tx'), Opaque('rx'), IntV(64, 0), Opaque('tids'), args[0]])

def m_start(I, args, callee):
    r, bid, build = args
    runner = unwrap_ref(I, r)
    b = bid.fields[0].v
    mon = I.mon
    if mon.starts[b] != 0:
        I.failures.append((f'C01: step {b} started twice', I.model_now()))
    mon.starts[b] += 1
    for f in mon.order_ins[b]:
        p = mon.producer[f]
        if p is not None and not mon.settled[p]:
            I.failures.append((f'C01: step {b} started before producer {p} settled; events={mon.events}', I.model_now()))
    mon.running[b] = True
    mon.nrunning += 1
    if mon.nrunning > mon.par:
        I.failures.append((f'C04: {mon.nrunning} running > -j {mon.par}', I.model_now()))
    mon.events.append(('start', b))
    runner.fields[2] = IntV(64, runner.fields[2].v + 1)
    return UNIT

def m_wait(I, args, callee):
    runner = unwrap_ref(I, args[0])
    mon = I.mon
    running = [b for b in range(NB) if mon.running[b]]
    assert running
    j = choose(I, f'fin{len(mon.events)}', len(running))
    b = running[j]
    ok = choose(I, f'ok{len(mon.events)}', 2) == 1
    mon.running[b] = False
    mon.nrunning -= 1
    if ok:
        mon.settled[b] = True
    else:
        mon.failed[b] = True
    mon.events.append(('fin', b, ok))
    runner.fields[2] = IntV(64, runner.fields[2].v - 1)
    result = Agg('TaskResult', [Agg('Termination', [], 'Success' if ok else 'Failure'), vec([]), opt_none()])
    return Agg('FinishedTask', [IntV(64, 0), buildid(b), Opaque('span'), result])

def m_check_dirty(I, args, callee):
    w, bid = args
    b = bid.fields[0].v
    mon = I.mon
    for f in mon.order_ins[b]:
        p = mon.producer[f]
        if p is not None and not mon.settled[p]:
            I.failures.append((f'C02: step {b} judged before producer {p} settled', I.model_now()))
    if mon.phony[b]:
        mon.settled[b] = True
        mon.events.append(('phony', b))
        return Agg('Result', [BoolV(False)], 'Ok')
    dirty = choose(I, f'dirty{b}', 2) == 1
    if not dirty:
        mon.settled[b] = True
    mon.events.append(('judge', b, dirty))
    return Agg('Result', [BoolV(dirty)], 'Ok')

def m_vecdeque_new(I, args, callee):
    return Agg('VecDeque', [])
def m_push_back(I, args, callee):
    unwrap_ref(I, args[0]).fields.append(args[1])
    return UNIT
def m_pop_front(I, args, callee):
    d = unwrap_ref(I, args[0])
    if not d.fields:
        return opt_none()
    return opt_some(d.fields.pop(0))

def m_hashset_new(I, args, callee):
    return Agg('HashSet', [])
def m_hashset_insert(I, args, callee):
    s = unwrap_ref(I, args[0])
    k = args[1].fields[0].v
    for x in s.fields:
        if x.fields[0].v == k:
            return BoolV(False)
    s.fields.append(args[1])
    return BoolV(True)
def m_hashset_into_iter(I, args, callee):
    s = args[0]
    # iteration order unspecified: pick a symbolic rotation (cheap stand-in for a permutation)
    items = list(s.fields)
    if len(items) > 1:
        r = choose(I, f'rot{I.steps}', len(items))
        items = items[r:] + items[:r]
    return Agg('SetIter', [vec(items), IntV(64, 0)])
def m_setiter_next(I, args, callee):
    it = unwrap_ref(I, args[0])
    v, pos = it.fields
    if pos.v >= len(v.fields):
        return opt_none()
    it.fields[1] = IntV(64, pos.v + 1)
    return opt_some(v.fields[pos.v])

def m_slice_into_iter(I, args, callee):
    a = args[0]
    if isinstance(a, Ref):
        v = unwrap_ref(I, a)
        a = SliceRef(Cell(v), (), 0, len(v.fields))
    return Agg('Iter', [a, IntV(64, 0)])

def m_vec_deref(I, args, callee):
    r = args[0]
    v = I.load(r.cell, r.path)
    return SliceRef(r.cell, r.path, 0, len(v.fields))

def as_int(I, x):
    if isinstance(x, IntV):
        if not x.conc():
            raise Unsupported('symbolic range bound')
        return x.v
    return x

def m_vec_index_range(I, args, callee):
    r, rng = args
    v = I.load(r.cell, r.path)
    if rng.kind == 'Range':
        a, b = as_int(I, rng.fields[0]), as_int(I, rng.fields[1])
    elif rng.kind == 'RangeFrom':
        a, b = as_int(I, rng.fields[0]), len(v.fields)
    else:
        raise Unsupported('range kind ' + rng.kind)
    if not (a <= b <= len(v.fields)):
        I.failures.append((f'slice index {a}..{b} out of range for len {len(v.fields)}', I.model_now()))
        raise PathEnd('oob')
    return SliceRef(r.cell, r.path, a, b - a)

def find_closure(I, callee):
    m = re.search(r'\{closure@([^}]*)\}', callee)
    span = m.group(1)
    for f in I.fns:
        if '{closure@' + span + '}' in f.sig.split(') -> ')[0]:
            return f
    raise Unsupported('closure fn ' + span)

def m_position(I, args, callee):
    it, clo = args
    it = unwrap_ref(I, it) if isinstance(it, Ref) else it
    sl, pos = it.fields
    f = find_closure(I, callee)
    base = I.load(sl.cell, sl.path)
    cc = Cell(clo)
    for i in range(pos.v, sl.len):
        el = Ref(Cell(base), (('f', sl.start + i),))
        r = I.call(f, [Ref(cc, ()), el])
        if I.branch_bool(r):
            return opt_some(IntV(64, i))
    return opt_none()

def m_option_is(kind):
    def f(I, args, callee):
        o = unwrap_ref(I, args[0]) if isinstance(args[0], Ref) else args[0]
        return BoolV(o.variant == kind)
    return f

def m_as_deref(I, args, callee):
    o = unwrap_ref(I, args[0])
    if o.variant == 'None':
        return opt_none()
    s = o.fields[0]
    v = s.fields[0]
    return opt_some(SliceRef(Cell(v), (), 0, len(v.fields)))

def m_unwrap_or(I, args, callee):
    o, d = args
    return o.fields[0] if o.variant == 'Some' else d

def m_unwrap(I, args, callee):
    o = args[0]
    if o.variant != 'Some':
        I.failures.append(('unwrap on None', I.model_now()))
        raise PathEnd('panic')
    return o.fields[0]

def m_string_eq_str(I, args, callee):
    a, b = args
    a = unwrap_ref(I, a)
    b = unwrap_ref(I, b) if isinstance(b, Ref) else b
    if isinstance(a, Agg) and a.kind == 'String':
        v = a.fields[0]
        a = SliceRef(Cell(v), (), 0, len(v.fields))
    return M.str_eq(I, a, b)

def m_replace(I, args, callee):
    r, new = args
    old = I.load(r.cell, r.path)
    I.store(r.cell, r.path, new)
    return old

def m_enum_eq(neg):
    def f(I, args, callee):
        a, b = unwrap_ref(I, args[0]), unwrap_ref(I, args[1])
        if isinstance(a, IntV):
            r = I.binop('Eq', a, b)
            return BoolV(not r.v) if neg else r
        if a.kind in ('FileId', 'BuildId'):
            r = I.binop('Eq', a.fields[0], b.fields[0])
            return BoolV((not r.v) if r.conc() else z3.Not(r.v)) if neg else r
        eq = a.variant == b.variant
        return BoolV(eq != neg)
    return f

def m_iter_mut(I, args, callee):
    return Agg('Iter', [args[0], IntV(64, 0)])

def m_smallmap_itermut(I, args, callee):
    sm = unwrap_ref(I, args[0])
    v = sm.fields[0]
    return Agg('Iter', [SliceRef(Cell(v), (), 0, len(v.fields)), IntV(64, 0)])

def m_fail(msg):
    def f(I, args, callee):
        I.failures.append((msg + ' reached', I.model_now()))
        raise PathEnd('panic')
    return f

def m_anyhow(I, args, callee):
    return Opaque('anyhow', tuple(args))

def m_ok_or_else(I, args, callee):
    o = args[0]
    if o.variant == 'Some':
        return Agg('Result', [o.fields[0]], 'Ok')
    return Agg('Result', [Opaque('anyhow', ('unknown pool',))], 'Err')

def m_vec_pop(I, args, callee):
    v = unwrap_ref(I, args[0])
    if not v.fields:
        return opt_none()
    return opt_some(v.fields.pop())

EXTRA = [
    (r'^Vec::<.*>::pop$', m_vec_pop),
    (r'^<DenseMap<.*> as (std::ops::)?Index(Mut)?<.*>>::index(_mut)?$', m_dm_index),
    (r'^register_sigint$', m_unit),
    (r'^was_interrupted$', m_false),
    (r'^enabled$', m_false),
    (r'^Runner::new$', m_runner_new),
    (r'^Runner::start$', m_start),
    (r'^Runner::wait::', m_wait),
    (r'^<dyn Progress as Progress>::', m_unit),
    (r'^Work::<.*>::create_parent_dirs$', m_ok_unit),
    (r'^Work::<.*>::check_build_dirty$', m_check_dirty),
    (r'^Work::<.*>::record_finished$', m_ok_unit),
    (r'^VecDeque::<.*>::new$', m_vecdeque_new),
    (r'^VecDeque::<.*>::push_back$', m_push_back),
    (r'^VecDeque::<.*>::pop_front$', m_pop_front),
    (r'^HashSet::<.*>::new$', m_hashset_new),
    (r'^HashSet::<.*>::insert$', m_hashset_insert),
    (r'^<HashSet<.*> as IntoIterator>::into_iter$', m_hashset_into_iter),
    (r'^<std::collections::hash_set::IntoIter<.*> as Iterator>::next$', m_setiter_next),
    (r'^<&\[.*\] as IntoIterator>::into_iter$', m_slice_into_iter),
    (r'^<&Vec<.*> as IntoIterator>::into_iter$', m_slice_into_iter),
    (r'^<std::slice::Iter<.*> as Iterator>::next$', M.m_iter_next),
    (r'^<std::slice::Iter<.*> as IntoIterator>::into_iter$', M.m_identity),
    (r'^core::slice::<impl \[.*\]>::iter$', m_slice_into_iter),
    (r'^<std::slice::Iter<.*> as Iterator>::position::', m_position),
    (r'^<Vec<.*> as Deref>::deref$', m_vec_deref),
    (r'^<Vec<.*> as (std::ops::)?Index<std::ops::Range(From)?<usize>>>::index$', m_vec_index_range),
    (r'^Option::<.*>::is_none$', m_option_is('None')),
    (r'^Option::<.*>::is_some$', m_option_is('Some')),
    (r'^Option::<String>::as_deref$', m_as_deref),
    (r'^Option::<&str>::unwrap_or$', m_unwrap_or),
    (r'^Option::<.*>::unwrap$', m_unwrap),
    (r'^Option::<.*>::ok_or_else::', m_ok_or_else),
    (r'^<&mut String as PartialEq<&str>>::eq$', m_string_eq_str),
    (r'^std::mem::replace::', m_replace),
    (r' as PartialEq>::eq$', m_enum_eq(False)),
    (r' as PartialEq>::ne$', m_enum_eq(True)),
    (r'^SmallMap::<.*>::iter_mut$', m_smallmap_itermut),
    (r'^anyhow::', m_anyhow),
    (r'^<&String as anyhow::kind::AdhocKind>::anyhow_kind$', m_anyhow),
    (r'^String::push_str$', m_unit),
    (r'^<str as ToString>::to_string$', M.m_opaque('String')),
    (r'^build_message$', M.m_opaque('str')),
]

def main():
    fns = parse_mir(__import__('os').environ.get('N2MIR','/tmp/s/n2.mir'), __import__('os').environ.get('N2MIRS','/tmp/s/n2s.mir'))
    I = Interp(fns, M.src_enums(M.SRC_ROOT))
    I.models = EXTRA + M.MODELS
    want_file = [f for f in fns if re.search(r'work::<impl at src/work.rs:352.*::want_file$', f.name)][0]
    run = [f for f in fns if f.name.endswith('::run') and 'work::' in f.name][0]
    work = [[]]
    npaths = 0
    ends = collections.Counter()
    fails = {}
    t0 = time.time()
    while work:
        prefix = work.pop()
        I.start_path(prefix)
        try:
            w = mk_state(I)
            wc = Cell(w)
            r = I.call(want_file, [Ref(wc, ()), fileid(NF - 1)])
            assert r.variant == 'Ok', r
            res = I.call(run, [Ref(wc, ())])
            mon = I.mon
            kind = res.variant + (':' + str(res.fields[0]) if res.variant == 'Ok' else '')
            ends[kind] += 1
            # post-conditions
            bs = w.fields[6]
            states = [s.variant for s in bs.fields[0].fields[0].fields]
            if res.variant == 'Ok' and res.fields[0].v is True:
                for b in range(NB):
                    if states[b] not in ('Unknown', 'Done'):
                        I.failures.append((f'C06: run Ok(true) but step {b} is {states[b]}', I.model_now()))
                if any(mon.failed):
                    I.failures.append(('C05: Ok(true) with a failed step', I.model_now()))
            if res.variant == 'Ok' and res.fields[0].v is False and not any(mon.failed):
                I.failures.append(('C05: Ok(false) without any failure', I.model_now()))
        except PathEnd as e:
            ends['end:' + str(e).split(':')[0]] += 1
        npaths += 1
        for what, m in I.failures:
            fails.setdefault(what.split(';')[0], (what, I.mon.events[:]))
        work.extend(I.pending)
        if fails and __import__('os').environ.get('STOP'):
            break
    dt = time.time() - t0
    print(f'S-cut NB={NB}: paths={npaths} time={dt:.1f}s queries={I.stats["queries"]} calls={I.stats["calls"]} ends={dict(ends)}')
    for k, (what, ev) in list(fails.items())[:8]:
        print('  FAIL:', what[:200])

if __name__ == '__main__':
    try:
        main()
    except Unsupported as e:
        print('UNSUPPORTED:', e)
        sys.exit(2)
