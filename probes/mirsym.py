#!/usr/bin/env python3
"""Spike: path-enumerating symbolic executor over rustc text MIR (feasibility probe)."""
import re, sys, time, collections
import z3

# ---------------------------------------------------------------- MIR parsing
class Fn:
    def __init__(self, name, sig):
        self.name, self.sig = name, sig
        self.nargs = 0
        self.local_ty = {}
        self.blocks = {}
        self.file = None

def parse_mir(path, span_path=None):
    fns = []
    cur = None
    bb = None
    for line in open(path):
        line = line.rstrip('\n')
        mc = re.match(r'^const (.*::promoted\[\d+\]): (.*) = \{$', line)
        if mc:
            cur = Fn(mc.group(1), 'fn %s() -> %s {' % (mc.group(1), mc.group(2)))
            cur.ret = mc.group(2)
            fns.append(cur)
            bb = None
            continue
        if line.startswith('fn '):
            m = re.match(r'fn (.*?)\((.*)\) -> (.*) \{$', line)
            if not m:
                cur = None
                continue
            cur = Fn(m.group(1), line)
            args = m.group(2)
            cur.nargs = len(re.findall(r'(?:^|, )_\d+: ', args))
            for am in re.finditer(r'(?:^|, )_(\d+): ', args):
                pass
            cur.ret = m.group(3)
            fns.append(cur)
            bb = None
            continue
        if cur is None:
            continue
        if line == '}':
            cur = None
            continue
        s = line.strip()
        m = re.match(r'let (?:mut )?_(\d+): (.*);$', s)
        if m:
            cur.local_ty[int(m.group(1))] = m.group(2)
            continue
        m = re.match(r'bb(\d+)(?: \(cleanup\))?: \{$', s)
        if m:
            bb = []
            cur.blocks[int(m.group(1))] = bb
            continue
        if bb is not None and s and s != '}' and not s.startswith('debug ') and not s.startswith('scope '):
            bb.append(s)
    # arg types
    for f in fns:
        m = re.match(r'fn (.*?)\((.*)\) -> (.*) \{$', f.sig)
        for am in re.finditer(r'_(\d+): ((?:[^,<>()\[\]]|<[^<>]*(?:<[^<>]*>[^<>]*)*>|\([^()]*\)|\[[^\[\]]*\])+)', m.group(2)):
            f.local_ty[int(am.group(1))] = am.group(2).strip()
        f.local_ty[0] = f.ret
    if span_path:
        i = -1
        want = False
        for line in open(span_path):
            if line.startswith('fn '):
                i += 1
                want = True
                continue
            if line.startswith('const ') and 'promoted[' in line and line.rstrip().endswith('= {'):
                i += 1
                want = False
                continue
            if want:
                m = re.search(r' at (src/[\w/]+\.rs):', line)
                if m and i < len(fns):
                    fns[i].file = m.group(1)
                    want = False
    return fns

# ---------------------------------------------------------------- values
class IntV:
    __slots__ = ('w', 'v', 's')
    def __init__(self, w, v, s=False):
        self.w = w
        self.s = s
        if isinstance(v, int):
            v &= (1 << w) - 1
        self.v = v
    def conc(self):
        return isinstance(self.v, int)
    def z(self):
        return z3.BitVecVal(self.v, self.w) if isinstance(self.v, int) else self.v
    def __repr__(self):
        return f'{self.v}:{self.w}'

class BoolV:
    __slots__ = ('v',)
    def __init__(self, v):
        self.v = v  # python bool or z3 Bool
    def conc(self):
        return isinstance(self.v, bool)
    def z(self):
        return z3.BoolVal(self.v) if isinstance(self.v, bool) else self.v
    def __repr__(self):
        return f'B({self.v})'

class Agg:
    """struct / tuple / enum variant / Vec / String"""
    def __init__(self, kind, fields, variant=None):
        self.kind, self.fields, self.variant = kind, fields, variant
    def __repr__(self):
        return f'{self.kind}{"::"+str(self.variant) if self.variant is not None else ""}{self.fields}'

class Cell:
    __slots__ = ('v',)
    def __init__(self, v=None):
        self.v = v

class Ref:
    __slots__ = ('cell', 'path')
    def __init__(self, cell, path=()):
        self.cell, self.path = cell, path
    def __repr__(self):
        return f'&{self.path}'

class SliceRef:
    """&[T] / &str: window into an object holding .fields (list)"""
    __slots__ = ('cell', 'path', 'start', 'len')
    def __init__(self, cell, path, start, length):
        self.cell, self.path, self.start, self.len = cell, path, start, length
    def __repr__(self):
        return f'&[{self.start}..+{self.len}]'

class Opaque:
    def __init__(self, tag, parts=()):
        self.tag, self.parts = tag, parts
    def __repr__(self):
        return f'<{self.tag}>'

UNIT = Agg('()', [])
class Uninit:
    def __repr__(self):
        return 'UNINIT'
UNINIT = Uninit()

ENUMS = {
    'Option': ['None', 'Some'], 'Result': ['Ok', 'Err'], 'ControlFlow': ['Continue', 'Break'],
}

class Panic(Exception):
    pass
class PathEnd(Exception):
    pass
class Unsupported(Exception):
    pass

INT_W = {'usize': 64, 'isize': 64, 'u8': 8, 'i8': 8, 'u16': 16, 'i16': 16, 'u32': 32, 'i32': 32,
         'u64': 64, 'i64': 64, 'char': 32, 'u128': 128, 'i128': 128}

# ---------------------------------------------------------------- interpreter
class Interp:
    def __init__(self, fns, src_enums):
        self.fns = fns
        self.by_last = collections.defaultdict(list)
        for f in fns:
            self.by_last[self.last_seg(f.name)].append(f)
        self.enums = dict(ENUMS)
        self.enums.update(src_enums)
        self.models = []
        self.stats = collections.Counter()

    @staticmethod
    def last_seg(name):
        name = re.sub(r'::\{closure#\d+\}', lambda m: m.group(0).replace('::', '@@'), name)
        seg = name.split('::')[-1]
        return seg.replace('@@', '::')

    # --- path state
    def start_path(self, prefix):
        self.solver = z3.Solver()
        self.prefix = prefix
        self.decisions = []
        self.pending = []
        self.failures = []
        self.steps = 0

    def decide(self, alts):
        """alts: list of (label, z3 constraint). returns chosen label."""
        k = len(self.decisions)
        if k < len(self.prefix):
            lab = self.prefix[k]
            for l, c in alts:
                if l == lab:
                    self.solver.add(c)
                    self.decisions.append(lab)
                    return lab
            raise RuntimeError('replay divergence')
        feas = []
        for l, c in alts:
            self.stats['queries'] += 1
            self.solver.push()
            self.solver.add(c)
            r = self.solver.check()
            self.solver.pop()
            if r == z3.sat:
                feas.append((l, c))
        if not feas:
            raise PathEnd('infeasible')
        for l, c in feas[1:]:
            self.pending.append(self.decisions + [l])
        l, c = feas[0]
        self.solver.add(c)
        self.decisions.append(l)
        return l

    def branch_bool(self, b):
        if b.conc():
            return b.v
        return self.decide([(True, b.v), (False, z3.Not(b.v))])

    def oblige(self, b, what):
        """b must hold; if violation feasible, record model and continue assuming b."""
        if b.conc():
            if not b.v:
                self.failures.append((what, None))
                raise PathEnd('obligation failed concretely: ' + what)
            return
        self.stats['queries'] += 1
        self.solver.push()
        self.solver.add(z3.Not(b.v))
        r = self.solver.check()
        if r == z3.sat:
            self.failures.append((what, self.solver.model()))
        self.solver.pop()
        self.solver.add(b.v)
        if self.solver.check() != z3.sat:
            raise PathEnd('only failing')

    # --- places
    def eval_place(self, fr, s):
        """returns (cell, path)"""
        s = s.strip()
        return self._place(fr, s)

    def _split_top(self, s, sep):
        depth = 0
        for i, ch in enumerate(s):
            if ch in '([<{':
                depth += 1
            elif ch in ')]>}':
                depth -= 1
            elif depth == 0 and s.startswith(sep, i):
                return s[:i], s[i + len(sep):]
        return None

    def _place(self, fr, s):
        # trailing index
        m = re.match(r'^(.*)\[(_\d+)\]$', s)
        if m and self._balanced(m.group(1)):
            cell, path = self._place(fr, m.group(1))
            idx = fr[int(m.group(2)[1:])].v
            return cell, path + (('i', idx),)
        m = re.match(r'^(.*)\[(\d+) of \d+\]$', s)
        if m and self._balanced(m.group(1)):
            cell, path = self._place(fr, m.group(1))
            return cell, path + (('i', IntV(64, int(m.group(2)))),)
        if re.match(r'^_\d+$', s):
            return fr[int(s[1:])], ()
        if s.startswith('(') and s.endswith(')'):
            inner = s[1:-1]
            if inner.startswith('*'):
                cell, path = self._place(fr, inner[1:])
                r = self.load(cell, path)
                if isinstance(r, Ref):
                    return r.cell, r.path
                if isinstance(r, SliceRef):
                    return Cell(r), ('slice',)
                if isinstance(r, Agg) and r.kind == 'Box':
                    return r.fields[0], ()
                raise Unsupported(f'deref of {r!r} in {s}')
            sp = self._split_top(inner, ' as ')
            if sp and self._balanced(sp[0]) and re.match(r'^\w+$', sp[1]):
                cell, path = self._place(fr, sp[0])
                return cell, path + (('d', sp[1]),)
            m = re.match(r'^(.*)\.(\d+): (.*)$', inner)
            if m:
                # find the right split: field number follows last top-level '.'
                base, k = self._split_field(inner)
                cell, path = self._place(fr, base)
                return cell, path + (('f', k),)
        raise Unsupported('place: ' + s)

    def _balanced(self, s):
        d = 0
        for ch in s:
            if ch in '([':
                d += 1
            elif ch in ')]':
                d -= 1
                if d < 0:
                    return False
        return d == 0

    def _split_field(self, inner):
        depth = 0
        for i, ch in enumerate(inner):
            if ch in '([':
                depth += 1
            elif ch in ')]':
                depth -= 1
            elif ch == '.' and depth == 0:
                m = re.match(r'\.(\d+): ', inner[i:])
                if m:
                    return inner[:i], int(m.group(1))
        raise Unsupported('field split: ' + inner)

    def load(self, cell, path):
        v = cell.v
        for st in path:
            v = self.step(v, st)
        return v

    def step(self, v, st):
        if st == 'slice':
            return v
        k = st[0]
        if k == 'f':
            if isinstance(v, Ref):
                raise Unsupported('field of ref')
            return v.fields[st[1]]
        if k == 'd':
            if v.variant != st[1]:
                raise Unsupported(f'downcast {v!r} as {st[1]}')
            return v
        if k == 'i':
            idx = st[1]
            if isinstance(v, SliceRef):
                base = self.load(v.cell, v.path)
                i = self.conc_index(idx, v.len, 'index')
                return base.fields[v.start + i]
            i = self.conc_index(idx, len(v.fields), 'index')
            return v.fields[i]
        raise Unsupported(str(st))

    def conc_index(self, idx, length, what):
        if isinstance(idx, IntV) and idx.conc():
            i = idx.v
        elif isinstance(idx, int):
            i = idx
        else:
            raise Unsupported('symbolic index')
        if not (0 <= i < length):
            self.failures.append((f'{what} out of bounds: {i} >= {length}', self.model_now()))
            raise PathEnd('oob')
        return i

    def model_now(self):
        if self.solver.check() == z3.sat:
            return self.solver.model()
        return None

    def store(self, cell, path, val):
        if not path:
            cell.v = val
            return
        v = cell.v
        for st in path[:-1]:
            v = self.step(v, st)
        st = path[-1]
        if st == 'slice':
            raise Unsupported('store to slice')
        if st[0] == 'f':
            v.fields[st[1]] = val
        elif st[0] == 'i':
            if isinstance(v, SliceRef):
                base = self.load(v.cell, v.path)
                i = self.conc_index(st[1], v.len, 'index')
                base.fields[v.start + i] = val
            else:
                i = self.conc_index(st[1], len(v.fields), 'index')
                v.fields[i] = val
        elif st[0] == 'd':
            raise Unsupported('store downcast')

    # --- operands / rvalues
    def operand(self, fr, s):
        s = s.strip()
        if s.startswith('copy ') or s.startswith('move '):
            cell, path = self.eval_place(fr, s[5:])
            v = self.load(cell, path)
            if v is UNINIT:
                raise Unsupported('read of uninit ' + s)
            if s.startswith('copy ') and isinstance(v, Agg):
                return Agg(v.kind, list(v.fields), v.variant)
            return v
        if s.startswith('no_retag '):
            return self.operand(fr, s[9:])
        if s.startswith('const '):
            return self.const(s[6:])
        if re.match(r'^[A-Za-z_][\w:]*$', s):
            return Opaque('fnref', (s,))
        raise Unsupported('operand: ' + s)

    def const(self, c):
        c = c.strip()
        m = re.match(r'^(-?\d+)_(\w+)$', c)
        if m:
            return IntV(INT_W[m.group(2)], int(m.group(1)), m.group(2)[0] == 'i')
        if c in ('true', 'false'):
            return BoolV(c == 'true')
        if c == '()':
            return UNIT
        m = re.match(r"^'(.*)'$", c)
        if m:
            ch = m.group(1)
            ch = {'\\n': '\n', '\\0': '\0', '\\r': '\r', '\\t': '\t', "\\'": "'", '\\\\': '\\'}.get(ch, ch)
            if ch.startswith('\\u{'):
                ch = chr(int(ch[3:-1], 16))
            return IntV(32, ord(ch))
        m = re.match(r'^"(.*)"$', c)
        if m:
            bs = bytes(m.group(1), 'utf-8').decode('unicode_escape').encode('utf-8')
            obj = Agg('bytes', [IntV(8, b) for b in bs])
            return SliceRef(Cell(obj), (), 0, len(bs))
        m = re.match(r'^([\w:]+?)(?:::<.*>)?::(\w+)$', c)
        if m and m.group(1).split('::')[-1] in self.enums:
            return Agg(m.group(1).split('::')[-1], [], m.group(2))
        nc = getattr(self, 'named_consts', {})
        if c in nc:
            return self.const(nc[c])
        if c.split('::')[-1] in nc and re.match(r'^[\w:]+$', c):
            return self.const(nc[c.split('::')[-1]])
        m = re.search(r'::promoted\[(\d+)\]$', c)
        if m:
            name = self.curfn[-1].name + '::promoted[%s]' % m.group(1)
            for f in self.fns:
                if f.name == name:
                    return self.call(f, [])
            raise Unsupported('promoted ' + name)
        return Opaque('const', (c,))

    def split_args(self, s):
        out, depth, cur = [], 0, ''
        instr = False
        i = 0
        while i < len(s):
            ch = s[i]
            if instr:
                cur += ch
                if ch == '\\':
                    cur += s[i + 1]
                    i += 1
                elif ch == '"':
                    instr = False
            elif ch == '"':
                instr = True
                cur += ch
            elif ch in '([{<' :
                depth += 1
                cur += ch
            elif ch in ')]}>' and not (ch == '>' and cur.endswith('-')):
                depth -= 1
                cur += ch
            elif ch == ',' and depth == 0:
                out.append(cur.strip())
                cur = ''
            else:
                cur += ch
            i += 1
        if cur.strip():
            out.append(cur.strip())
        return out

    BIN = {'Add', 'Sub', 'Mul', 'Eq', 'Ne', 'Lt', 'Le', 'Gt', 'Ge', 'BitAnd', 'BitOr', 'BitXor',
           'AddWithOverflow', 'SubWithOverflow', 'MulWithOverflow', 'Shl', 'Shr', 'AddUnchecked', 'SubUnchecked'}

    def rvalue(self, fr, s, dest_ty=None):
        s = s.strip()
        if s.startswith('&raw const (fake) '):
            cell, path = self.eval_place(fr, s[len('&raw const (fake) '):])
            return self.mkref(cell, path)
        if s.startswith('&raw const ') or s.startswith('&raw mut '):
            raise Unsupported('raw ptr')
        if s.startswith('&mut '):
            cell, path = self.eval_place(fr, s[5:])
            return self.mkref(cell, path)
        if s.startswith('&'):
            cell, path = self.eval_place(fr, s[1:])
            return self.mkref(cell, path)
        m = re.match(r'^(\w+)\((.*)\)$', s)
        if m and m.group(1) in self.BIN:
            a, b = [self.operand(fr, x) for x in self.split_args(m.group(2))]
            return self.binop(m.group(1), a, b)
        if m and m.group(1) == 'Not':
            a = self.operand(fr, m.group(2))
            if isinstance(a, BoolV):
                return BoolV((not a.v) if a.conc() else z3.Not(a.v))
            return IntV(a.w, (~a.v) if a.conc() else ~a.v)
        if m and m.group(1) == 'PtrMetadata':
            a = self.operand(fr, m.group(2))
            if isinstance(a, SliceRef):
                return IntV(64, a.len)
            raise Unsupported('PtrMetadata of ' + repr(a))
        if m and m.group(1) == 'discriminant':
            cell, path = self.eval_place(fr, m.group(2))
            v = self.load(cell, path)
            names = self.enums.get(v.kind)
            if names is None:
                raise Unsupported('enum ' + v.kind)
            return IntV(64, names.index(v.variant))
        m = re.match(r'^(.*) as (.*) \((IntToInt|IntToFloat|FloatToInt|PtrToPtr|FnPtrToPtr|Transmute|PointerCoercion|PointerExposeProvenance|PointerWithExposedProvenance)(?:\(.*\))?\)$', s)
        if m:
            a = self.operand(fr, m.group(1))
            kind = m.group(3)
            ty = m.group(2)
            if kind == 'IntToInt':
                w = INT_W[ty]
                sg = ty[0] == 'i'
                if isinstance(a, IntV) and a.conc():
                    val = a.v
                    if a.s and val >= (1 << (a.w - 1)):
                        val -= (1 << a.w)
                    return IntV(w, val, sg)
                if isinstance(a, IntV) and w > a.w and a.s:
                    return IntV(w, z3.SignExt(w - a.w, a.v), sg)
                if isinstance(a, BoolV):
                    return IntV(w, int(a.v)) if a.conc() else IntV(w, z3.If(a.v, z3.BitVecVal(1, w), z3.BitVecVal(0, w)))
                if a.conc():
                    return IntV(w, a.v)
                if w > a.w:
                    return IntV(w, z3.ZeroExt(w - a.w, a.v))
                if w < a.w:
                    return IntV(w, z3.Extract(w - 1, 0, a.v))
                return IntV(w, a.v)
            if kind == 'PointerCoercion' and 'Unsize' in s and isinstance(a, Ref):
                tgt = self.load(a.cell, a.path)
                if isinstance(tgt, Agg) and tgt.kind in ('array', 'Vec', 'bytes'):
                    return SliceRef(a.cell, a.path, 0, len(tgt.fields))
                return a
            if kind in ('PointerCoercion', 'Transmute', 'PtrToPtr'):
                return a
            raise Unsupported('cast ' + kind)
        if s.startswith('copy ') or s.startswith('move ') or s.startswith('const ') or s.startswith('no_retag '):
            return self.operand(fr, s)
        # aggregates
        m = re.match(r'^\{closure@([^}]*)\}(?: \{ (.*) \})?$', s)
        if m:
            fields = []
            if m.group(2):
                for fa in self.split_args(m.group(2)):
                    fields.append(self.operand(fr, fa.split(': ', 1)[1]))
            return Agg('closure@' + m.group(1), fields)
        m = re.match(r'^\[(.*); (\d+)\]$', s)
        if m:
            v = self.operand(fr, m.group(1))
            return Agg('array', [v for _ in range(int(m.group(2)))])
        if s.startswith('[') and s.endswith(']'):
            return Agg('array', [self.operand(fr, x) for x in self.split_args(s[1:-1])])
        if s.startswith('(') and s.endswith(')'):
            return Agg('tuple', [self.operand(fr, x) for x in self.split_args(s[1:-1])])
        m = re.match(r'^([\w:]+?)(?:::<.*>)?::(\w+)\((.*)\)$', s)
        if m and m.group(1).split('::')[-1] in self.enums:
            en = m.group(1).split('::')[-1]
            return Agg(en, [self.operand(fr, x) for x in self.split_args(m.group(3))], m.group(2))
        m = re.match(r'^([\w:]+?)(?:::<.*?>)?::(\w+)$', s)
        if m and m.group(1).split('::')[-1] in self.enums:
            return Agg(m.group(1).split('::')[-1], [], m.group(2))
        m = re.match(r'^([\w:]+?)(?:::<.*>)? \{ (.*) \}$', s)
        if m:
            fields = []
            for fa in self.split_args(m.group(2)):
                fields.append(self.operand(fr, fa.split(': ', 1)[1]))
            return Agg(m.group(1).split('::')[-1], fields)
        m = re.match(r'^([\w:]+?)(?:::<.*>)?\((.*)\)$', s)
        if m:  # tuple struct ctor
            return Agg(m.group(1).split('::')[-1], [self.operand(fr, x) for x in self.split_args(m.group(2))])
        if re.match(r'^\w+$', s):
            for en, names in self.enums.items():
                if s in names:
                    return Agg(en, [], s)
        raise Unsupported('rvalue: ' + s)

    def mkref(self, cell, path):
        if path and path[-1] == 'slice':
            return self.load(cell, path)
        v = self.load(cell, path)
        return Ref(cell, path)

    def binop(self, op, a, b):
        if isinstance(a, BoolV):
            az, bz = a.z(), b.z()
            if op == 'Eq':
                r = az == bz
            elif op == 'Ne':
                r = az != bz
            elif op == 'BitAnd':
                r = z3.And(az, bz)
            elif op == 'BitOr':
                r = z3.Or(az, bz)
            else:
                raise Unsupported('bool op ' + op)
            r = z3.simplify(r)
            return BoolV(z3.is_true(r)) if (z3.is_true(r) or z3.is_false(r)) else BoolV(r)
        w = a.w
        if a.conc() and b.conc() and a.s and op in ('AddWithOverflow', 'SubWithOverflow', 'Lt', 'Le', 'Gt', 'Ge', 'Add', 'Sub'):
            def sx(v):
                return v - (1 << w) if v >= (1 << (w - 1)) else v
            x, y = sx(a.v), sx(b.v)
            lo, hi = -(1 << (w - 1)), (1 << (w - 1)) - 1
            if op in ('AddWithOverflow', 'SubWithOverflow'):
                r = x + y if op[0] == 'A' else x - y
                return Agg('tuple', [IntV(w, r, True), BoolV(not (lo <= r <= hi))])
            if op in ('Add', 'Sub'):
                return IntV(w, x + y if op == 'Add' else x - y, True)
            return BoolV({'Lt': x < y, 'Le': x <= y, 'Gt': x > y, 'Ge': x >= y}[op])
        if a.conc() and b.conc():
            x, y = a.v, b.v
            M = (1 << w) - 1
            if op in ('Add', 'AddUnchecked'):
                return IntV(w, x + y)
            if op in ('Sub', 'SubUnchecked'):
                return IntV(w, x - y)
            if op == 'Mul':
                return IntV(w, x * y)
            if op == 'AddWithOverflow':
                return Agg('tuple', [IntV(w, x + y), BoolV(x + y > M)])
            if op == 'SubWithOverflow':
                return Agg('tuple', [IntV(w, x - y), BoolV(x < y)])
            if op == 'MulWithOverflow':
                return Agg('tuple', [IntV(w, x * y), BoolV(x * y > M)])
            if op == 'BitAnd':
                return IntV(w, x & y)
            if op == 'BitOr':
                return IntV(w, x | y)
            if op == 'BitXor':
                return IntV(w, x ^ y)
            if op == 'Shl':
                return IntV(w, x << (y % w))
            if op == 'Shr':
                return IntV(w, x >> (y % w))
            return BoolV({'Eq': x == y, 'Ne': x != y, 'Lt': x < y, 'Le': x <= y, 'Gt': x > y, 'Ge': x >= y}[op])
        az, bz = a.z(), b.z()
        if op in ('Add', 'AddUnchecked'):
            return IntV(w, az + bz)
        if op in ('Sub', 'SubUnchecked'):
            return IntV(w, az - bz)
        if op == 'BitAnd':
            return IntV(w, az & bz)
        if op == 'BitOr':
            return IntV(w, az | bz)
        if op == 'BitXor':
            return IntV(w, az ^ bz)
        if op == 'AddWithOverflow':
            return Agg('tuple', [IntV(w, az + bz), BoolV(z3.Not(z3.BVAddNoOverflow(az, bz, False)))])
        if op == 'SubWithOverflow':
            return Agg('tuple', [IntV(w, az - bz), BoolV(z3.ULT(az, bz))])
        cmp = {'Eq': az == bz, 'Ne': az != bz, 'Lt': z3.ULT(az, bz), 'Le': z3.ULE(az, bz),
               'Gt': z3.UGT(az, bz), 'Ge': z3.UGE(az, bz)}
        if op in cmp:
            return BoolV(cmp[op])
        raise Unsupported('binop ' + op)

    # --- function resolution
    def fn_type_params(self, f):
        if not f.file:
            return []
        name = self.last_seg(f.name)
        txt = open(SRC_ROOT + '/' + f.file).read()
        m = re.search(r'fn ' + re.escape(name) + r'<([^>(]*)>\s*\(', txt)
        if not m:
            return []
        out = []
        for part in m.group(1).split(','):
            part = part.strip()
            if part and not part.startswith("'"):
                out.append(part.split(':')[0].strip())
        return out

    def resolve(self, callee, caller):
        sub = getattr(self, 'subst', [{}])[-1]
        for k, v in sub.items():
            callee = re.sub(r'<' + k + r' as ', '<' + v + ' as ', callee)
        for pat, fn in self.models:
            if re.search(pat, callee):
                return ('model', fn)
        c = re.sub(r"::<'_>", '', callee)
        c = re.sub(r'::<[^<>]*(?:<[^<>]*(?:<[^<>]*>[^<>]*)*>[^<>]*)*>', '', c)
        m = re.match(r'^<(.*) as (.*)>::(\w+)$', c)
        if m:
            ty = re.sub(r'<.*$', '', m.group(1)).split('::')[-1].lstrip('&')
            c2 = [f for f in self.by_last.get(m.group(3), []) if self.impl_type(f) == ty]
            if len(c2) == 1:
                return ('fn', c2[0])
            raise Unsupported('trait call ' + callee + ' ' + str([f.name for f in c2]))
        segs = c.split('::')
        name = segs[-1]
        cands = self.by_last.get(name, [])
        if len(segs) >= 2:
            ty = segs[-2]
            c2 = [f for f in cands if self.impl_type(f) == ty or (f.name.split('::')[-2:-1] == [ty])]
            if len(c2) == 1:
                return ('fn', c2[0])
            if len(c2) > 1:
                raise Unsupported(f'ambiguous {callee}: {[f.name for f in c2]}')
        c2 = [f for f in cands if '<impl at' not in f.name]
        same = [f for f in c2 if f.file == caller.file]
        if len(same) == 1:
            return ('fn', same[0])
        if len(c2) == 1:
            return ('fn', c2[0])
        raise Unsupported(f'unresolved {callee} ({[f.name for f in cands]})')

    _impl_cache = {}
    def impl_type(self, f):
        m = re.search(r'<impl at (src/[\w/]+\.rs):(\d+):', f.name)
        if not m:
            return None
        key = (m.group(1), int(m.group(2)))
        if key not in self._impl_cache:
            lines = open(SRC_ROOT + '/' + key[0]).read().split('\n')
            line = lines[key[1] - 1]
            if line.strip().startswith('#['):
                for l2 in lines[key[1]:key[1] + 6]:
                    mm = re.match(r'\s*(?:pub(?:\([^)]*\))?\s+)?(?:struct|enum)\s+(\w+)', l2)
                    if mm:
                        self._impl_cache[key] = mm.group(1)
                        break
                else:
                    self._impl_cache[key] = None
                return self._impl_cache[key]
            t = line.strip()[4:]
            def skip_generics(t):
                t = t.lstrip()
                if t.startswith('<'):
                    d = 0
                    for i, ch in enumerate(t):
                        if ch == '<':
                            d += 1
                        elif ch == '>' and t[i - 1] != '-':
                            d -= 1
                            if d == 0:
                                return t[i + 1:].lstrip()
                return t
            t = skip_generics(t)
            mm = re.match(r'([\w:]+)', t)
            first = mm.group(1)
            rest = skip_generics(t[mm.end():])
            if rest.startswith('for '):
                mm2 = re.match(r'for\s+&?(?:mut\s+)?([\w:]+)', rest)
                first = mm2.group(1)
            self._impl_cache[key] = first.split('::')[-1]
        return self._impl_cache[key]

    # --- execution
    def call(self, f, args, depth=0):
        if depth > 60:
            raise Unsupported('call depth')
        fr = {}
        if not hasattr(self, 'curfn'):
            self.curfn = []
        self.curfn.append(f)
        try:
            return self._call(f, args, depth, fr)
        finally:
            self.curfn.pop()

    def _call(self, f, args, depth, fr):
        for i in f.local_ty:
            fr[i] = Cell(UNINIT)
        for i, a in enumerate(args):
            fr[i + 1] = Cell(a)
        bbn = 0
        while True:
            stmts = f.blocks[bbn]
            for s in stmts[:-1]:
                self.stmt(fr, f, s)
            self.steps += 1
            if self.steps > 20000:
                raise Unsupported('step bound')
            nxt = self.terminator(fr, f, stmts[-1], depth)
            if nxt is None:
                return fr[0].v
            bbn = nxt

    def stmt(self, fr, f, s):
        if s.startswith(('StorageLive', 'StorageDead', 'FakeRead', 'PlaceMention', 'AscribeUserType', 'nop', 'Retag', 'Coverage', 'ConstEvalCounter')):
            return
        m = re.match(r'^(.*?) = (.*);$', s)
        if not m:
            raise Unsupported('stmt: ' + s)
        lhs, rhs = m.group(1), m.group(2)
        val = self.rvalue(fr, rhs)
        cell, path = self.eval_place(fr, lhs)
        self.store(cell, path, val)

    def terminator(self, fr, f, s, depth):
        if s == 'return;':
            return None
        m = re.match(r'^goto -> bb(\d+);$', s)
        if m:
            return int(m.group(1))
        if s == 'unreachable;':
            self.failures.append(('unreachable reached in ' + f.name, self.model_now()))
            raise PathEnd('unreachable')
        m = re.match(r'^switchInt\((.*)\) -> \[(.*)\];$', s)
        if m:
            v = self.operand(fr, m.group(1))
            arms = []
            other = None
            for a in m.group(2).split(', '):
                k, t = a.split(': bb')
                if k == 'otherwise':
                    other = int(t)
                else:
                    arms.append((int(k), int(t)))
            if isinstance(v, BoolV):
                b = self.branch_bool(v)
                for k, t in arms:
                    if k == int(b):
                        return t
                return other
            if v.conc():
                for k, t in arms:
                    if k == v.v:
                        return t
                return other
            alts = [(t_k, v.v == z3.BitVecVal(k, v.w)) for (k, t_k) in [(k, ('arm', k, t)) for k, t in arms]]
            alts = [(('arm', k, t), v.v == z3.BitVecVal(k, v.w)) for k, t in arms]
            if other is not None:
                alts.append((('other', other), z3.And([v.v != z3.BitVecVal(k, v.w) for k, _ in arms])))
            lab = self.decide(alts)
            return lab[-1]
        m = re.match(r'^assert\((!?)(.*?), "(.*)\) -> \[success: bb(\d+), unwind.*\];$', s)
        if m:
            c = self.operand(fr, m.group(2))
            if m.group(1):
                c = BoolV((not c.v) if c.conc() else z3.Not(c.v))
            self.oblige(c, 'assert: ' + m.group(3)[:60] + ' in ' + f.name)
            return int(m.group(4))
        m = re.match(r'^drop\((.*)\) -> \[return: bb(\d+), unwind.*\];$', s)
        if m:
            return int(m.group(2))
        m = re.match(r'^(.*\)) -> (?:\[return: bb(\d+), unwind.*\]|unwind.*);$', s)
        if m:
            head, ret = m.group(1), m.group(2)
            dp = 0
            instr = False
            j = None
            for i in range(len(head) - 1, -1, -1):
                ch = head[i]
                if ch == '"' and (i == 0 or head[i - 1] != '\\'):
                    instr = not instr
                if instr:
                    continue
                if ch == ')':
                    dp += 1
                elif ch == '(':
                    dp -= 1
                    if dp == 0:
                        j = i
                        break
            argstr = head[j + 1:-1]
            pre = head[:j]
            if ' = ' in pre:
                dest, callee = pre.split(' = ', 1)
            else:
                dest, callee = None, pre
            args = [self.operand(fr, a) for a in self.split_args(argstr)]
            kind, target = self.resolve(callee.strip(), f)
            self.stats['calls'] += 1
            if kind == 'model':
                val = target(self, args, callee)
            else:
                if not hasattr(self, 'subst'):
                    self.subst = [{}]
                new = dict(self.subst[-1])
                mg = re.search(r'::<([^<>]*)>$', callee.strip())
                if mg:
                    params = self.fn_type_params(target)
                    gargs = [a.strip() for a in mg.group(1).split(',') if not a.strip().startswith("'")]
                    for pn, ga in zip(params, gargs):
                        new[pn] = ga
                self.subst.append(new)
                try:
                    val = self.call(target, args, depth + 1)
                finally:
                    self.subst.pop()
            if ret is None:
                raise Unsupported('diverging call returned: ' + callee)
            if dest:
                cell, path = self.eval_place(fr, dest)
                self.store(cell, path, val)
            return int(ret)
        raise Unsupported('terminator: ' + s)

# ---------------------------------------------------------------- std models
def elems(I, sl):
    base = I.load(sl.cell, sl.path)
    return base.fields[sl.start:sl.start + sl.len]

def m_get_unchecked_idx(I, args, callee):
    sl, idx = args
    if not idx.conc():
        raise Unsupported('symbolic get_unchecked')
    if not (0 <= idx.v < sl.len):
        I.failures.append((f'get_unchecked({idx.v}) on slice of len {sl.len}: out of bounds (UB)', I.model_now()))
        raise PathEnd('oob')
    base = I.load(sl.cell, sl.path)
    return Ref(Cell(base), (('f', sl.start + idx.v),))

def m_get_unchecked_range(I, args, callee):
    sl, rng = args
    a, b = rng.fields
    if not (a.conc() and b.conc()):
        raise Unsupported('symbolic range')
    if not (a.v <= b.v <= sl.len):
        I.failures.append((f'get_unchecked({a.v}..{b.v}) on len {sl.len}: out of bounds (UB)', I.model_now()))
        raise PathEnd('oob')
    return SliceRef(sl.cell, sl.path, sl.start + a.v, b.v - a.v)

def m_identity(I, args, callee):
    return args[0]

def m_panic(I, args, callee):
    I.failures.append(('panic: ' + repr(args), I.model_now()))
    raise PathEnd('panic')

def m_opaque(tag):
    def f(I, args, callee):
        return Opaque(tag, tuple(args))
    return f

def m_try_branch(I, args, callee):
    r = args[0]
    if r.kind == 'Result':
        if r.variant == 'Ok':
            return Agg('ControlFlow', [r.fields[0]], 'Continue')
        return Agg('ControlFlow', [Agg('Result', [r.fields[0]], 'Err')], 'Break')
    if r.kind == 'Option':
        if r.variant == 'Some':
            return Agg('ControlFlow', [r.fields[0]], 'Continue')
        return Agg('ControlFlow', [Agg('Option', [], 'None')], 'Break')
    raise Unsupported('try branch')

def m_from_residual(I, args, callee):
    r = args[0]
    return Agg(r.kind, list(r.fields), r.variant)

def m_vec_new(I, args, callee):
    return Agg('Vec', [])

def m_vec_push(I, args, callee):
    v = I.load(args[0].cell, args[0].path)
    v.fields.append(args[1])
    return UNIT

def m_smallmap_default(I, args, callee):
    return Agg('SmallMap', [Agg('Vec', [])])

def m_deref_mut_vec(I, args, callee):
    r = args[0]
    v = I.load(r.cell, r.path)
    return SliceRef(r.cell, r.path, 0, len(v.fields))

def m_iter(I, args, callee):
    sl = args[0]
    return Agg('Iter', [sl, IntV(64, 0)])

def m_iter_next(I, args, callee):
    it = I.load(args[0].cell, args[0].path)
    sl, pos = it.fields
    if pos.v >= sl.len:
        return Agg('Option', [], 'None')
    it.fields[1] = IntV(64, pos.v + 1)
    base = I.load(sl.cell, sl.path)
    return Agg('Option', [Ref(Cell(base), (('f', sl.start + pos.v),))], 'Some')

def str_eq(I, a, b):
    if a.len != b.len:
        return BoolV(False)
    conj = []
    for x, y in zip(elems(I, a), elems(I, b)):
        if x.conc() and y.conc():
            if x.v != y.v:
                return BoolV(False)
        else:
            conj.append(x.z() == y.z())
    if not conj:
        return BoolV(True)
    return BoolV(z3.And(conj))

def m_partial_eq(I, args, callee):
    a, b = args
    while isinstance(a, Ref):
        a = I.load(a.cell, a.path)
    while isinstance(b, Ref):
        b = I.load(b.cell, b.path)
    if isinstance(a, SliceRef):
        return str_eq(I, a, b)
    if isinstance(a, IntV):
        return I.binop('Eq', a, b)
    raise Unsupported('eq on ' + repr(a))

def m_strip_suffix_char(I, args, callee):
    s, ch = args
    if s.len == 0:
        return Agg('Option', [], 'None')
    last = elems(I, s)[-1]
    c = I.binop('Eq', IntV(32, last.v if last.conc() else z3.ZeroExt(24, last.v)), ch)
    if I.branch_bool(c):
        return Agg('Option', [SliceRef(s.cell, s.path, s.start, s.len - 1)], 'Some')
    return Agg('Option', [], 'None')

def m_ends_with(I, args, callee):
    a, b = args
    if b.len > a.len:
        return BoolV(False)
    return str_eq(I, SliceRef(a.cell, a.path, a.start + a.len - b.len, b.len), b)

def m_vec_clear(I, args, callee):
    I.load(args[0].cell, args[0].path).fields.clear()
    return UNIT

def m_vec_is_empty(I, args, callee):
    return BoolV(len(I.load(args[0].cell, args[0].path).fields) == 0)

def m_vec_len(I, args, callee):
    return IntV(64, len(I.load(args[0].cell, args[0].path).fields))

def m_vec_clone(I, args, callee):
    import copy
    v = I.load(args[0].cell, args[0].path)
    return Agg('Vec', [copy.copy(x) if isinstance(x, Agg) else x for x in v.fields])

MODELS = [
    (r'^Vec::<.*>::clear$', m_vec_clear),
    (r'^Vec::<.*>::is_empty$', m_vec_is_empty),
    (r'^Vec::<.*>::len$', m_vec_len),
    (r'^<Vec<.*> as Clone>::clone$', m_vec_clone),
    (r'get_unchecked::<usize>$', m_get_unchecked_idx),
    (r'get_unchecked::<std::ops::Range<usize>>$', m_get_unchecked_range),
    (r'^from_utf8_unchecked$', m_identity),
    (r'^std::rt::panic_fmt$|^core::panicking::', m_panic),
    (r'^Arguments::<.*>::(new|from_str)', m_opaque('fmtargs')),
    (r'^core::fmt::rt::Argument::', m_opaque('fmtarg')),
    (r'^format$', m_opaque('String')),
    (r'^must_use::', m_identity),
    (r' as Into<String>>::into$', m_identity),
    (r' as Try>::branch$', m_try_branch),
    (r' as FromResidual<.*>>::from_residual$', m_from_residual),
    (r'^Vec::<.*>::new$', m_vec_new),
    (r'^Vec::<.*>::push$', m_vec_push),
    (r'^<SmallMap<.*> as Default>::default$', m_smallmap_default),
    (r'^<Vec<.*> as DerefMut>::deref_mut$', m_deref_mut_vec),
    (r'::iter_mut$', m_iter),
    (r'IterMut<.*> as IntoIterator>::into_iter$', m_identity),
    (r'IterMut<.*> as Iterator>::next$', m_iter_next),
    (r' as PartialEq>::eq$', m_partial_eq),
    (r'strip_suffix::<char>$', m_strip_suffix_char),
    (r'::ends_with$', m_ends_with),
]

# ---------------------------------------------------------------- driver
def explore(I, entry, mkargs, maxpaths=200000, quiet=False):
    work = [[]]
    npaths = 0
    fails = []
    ends = collections.Counter()
    t0 = time.time()
    while work and npaths < maxpaths:
        prefix = work.pop()
        I.start_path(prefix)
        try:
            args = mkargs(I)
            r = I.call(entry, args)
            ends['return'] += 1
        except PathEnd as e:
            ends[str(e).split(':')[0]] += 1
        npaths += 1
        for f in I.failures:
            fails.append(f)
        work.extend(I.pending)
    return npaths, fails, ends, time.time() - t0, len(work)

def sym_buf(I, n, name='b'):
    bs = [IntV(8, z3.BitVec(f'{name}{i}', 8)) for i in range(n)] + [IntV(8, 0)]
    obj = Agg('bytes', bs)
    return SliceRef(Cell(obj), (), 0, n + 1)

def model_bytes(m, n, name='b'):
    if m is None:
        return None
    out = []
    for i in range(n):
        v = m.eval(z3.BitVec(f'{name}{i}', 8), model_completion=True)
        out.append(v.as_long())
    return bytes(out)

SRC_ROOT = __import__('os').environ.get('SRC_ROOT', '/tmp/s/n2mir')

def src_enums(root):
    import glob
    out = {}
    for p in glob.glob(root + '/src/*.rs'):
        txt = open(p).read()
        for m in re.finditer(r'enum (\w+)[^{;]*\{(.*?)\n\}', txt, re.S):
            body = re.sub(r'//[^\n]*', '', m.group(2))
            body = re.sub(r'\([^()]*\)|\{[^{}]*\}', '', body)
            names = [x.strip() for x in body.split(',') if x.strip()]
            names = [re.sub(r'#\[.*?\]\s*', '', x) for x in names]
            out[m.group(1)] = names
    return out

if __name__ == '__main__':
    fns = parse_mir('/tmp/s/n2.mir', '/tmp/s/n2s.mir')
    I = Interp(fns, src_enums(SRC_ROOT))
    I.models = MODELS
    byname = {f.name: f for f in fns}
    which = sys.argv[1]
    n = int(sys.argv[2])
    if which == 'depfile':
        entry = byname['depfile::parse']
        def mk(I):
            buf = sym_buf(I, n)
            sc = Agg('Scanner', [buf, IntV(64, 0), IntV(64, 1)])
            return [Ref(Cell(sc), ())]
    elif which == 'vardef':
        entry = [f for f in fns if f.name.endswith('::read_vardef')][0]
        def mk(I):
            buf = sym_buf(I, n)
            sc = Agg('Scanner', [buf, IntV(64, 0), IntV(64, 1)])
            p = Agg('Parser', [sc, Opaque('vars'), Agg('Vec', [])])
            return [Ref(Cell(p), ())]
    try:
        npaths, fails, ends, dt, left = explore(I, entry, mk)
    except Unsupported as e:
        print('UNSUPPORTED:', e)
        sys.exit(2)
    print(f'{which} N={n}: paths={npaths} left={left} time={dt:.1f}s queries={I.stats["queries"]} calls={I.stats["calls"]} ends={dict(ends)}')
    seen = set()
    for what, m in fails:
        key = what
        if key in seen:
            continue
        seen.add(key)
        print('  FAIL:', what[:150], '| input:', model_bytes(m, n))
