#!/usr/bin/env python3
"""Spike: C07 torn-log harness over real MIR of db.rs with mirsym."""
import sys, re, time, collections
import z3
import mirsym as M
from mirsym import *
import sched as S
from sched import opt_none, opt_some, vec, fileid, buildid, densemap, string, unwrap_ref

def mk_graph():
    names = ['a', 'b', 'h']
    files = [Agg('File', [string(n), opt_none(), vec([])]) for n in names]
    builds = []
    for b, out in enumerate([0, 1]):
        ins = Agg('BuildIns', [vec([]), IntV(64, 0), IntV(64, 0), IntV(64, 0)])
        outs = Agg('BuildOuts', [vec([fileid(out)]), IntV(64, 1)])
        disc = vec([fileid(2)]) if b == 1 else vec([])
        builds.append(Agg('Build', [Opaque('loc'), opt_none(), opt_some(string('c')), opt_none(), BoolV(False),
                                    opt_none(), opt_none(), ins, disc, outs, BoolV(False), BoolV(False)]))
        files[out].fields[1] = opt_some(buildid(b))
    return Agg('Graph', [densemap(builds), Agg('GraphFiles', [densemap(files), Agg('NameMap', [])])])

def idmap():
    return Agg('IdMap', [densemap([]), Agg('HashMap', [])])

# ---- models
def m_write_all(I, args, callee):
    f = unwrap_ref(I, args[0])
    sl = args[1]
    f.fields[0].fields.extend(M.elems(I, sl))
    return Agg('Result', [UNIT], 'Ok')

def m_read_exact(I, args, callee):
    br = unwrap_ref(I, args[0])       # BufReader -> &mut File
    f = unwrap_ref(I, br.fields[0])
    out = args[1]
    n = out.len
    pos = f.fields[2]
    flen = f.fields[1]                # IntV symbolic: number of bytes that survived
    enough = I.binop('Le', IntV(64, pos + n), flen)
    if not I.branch_bool(enough):
        f.fields[2] = pos  # std leaves the cursor unspecified; keep
        return Agg('Result', [Opaque('io::Error', ('UnexpectedEof',))], 'Err')
    base = I.load(out.cell, out.path)
    data = f.fields[0].fields
    for i in range(n):
        base.fields[out.start + i] = data[pos + i]
    f.fields[2] = pos + n
    return Agg('Result', [UNIT], 'Ok')

def m_err_kind(I, args, callee):
    e = unwrap_ref(I, args[0])
    return Agg('ErrorKind', [], e.parts[0])

def m_to_le(w):
    def f(I, args, callee):
        x = args[0]
        out = []
        for i in range(w // 8):
            if x.conc():
                out.append(IntV(8, (x.v >> (8 * i)) & 0xff))
            else:
                out.append(IntV(8, z3.Extract(8 * i + 7, 8 * i, x.v)))
        return Agg('array', out)
    return f

def m_from_le(w):
    def f(I, args, callee):
        bs = args[0].fields
        if all(b.conc() for b in bs):
            v = 0
            for i, b in enumerate(bs):
                v |= b.v << (8 * i)
            return IntV(w, v)
        return IntV(w, z3.Concat(*[b.z() for b in reversed(bs)]))
    return f

def m_array_index_rangeto(I, args, callee):
    r, rng = args
    end = rng.fields[0].v
    return SliceRef(r.cell, r.path, 0, end)

def m_array_as_slice(I, args, callee):
    r = args[0]
    v = I.load(r.cell, r.path)
    return SliceRef(r.cell, r.path, 0, len(v.fields))

def m_extend_from_slice(I, args, callee):
    v = unwrap_ref(I, args[0])
    v.fields.extend(M.elems(I, args[1]))
    return UNIT

def m_string_deref(I, args, callee):
    s = unwrap_ref(I, args[0])
    v = s.fields[0]
    return SliceRef(Cell(v), (), 0, len(v.fields))

def m_str_len(I, args, callee):
    return IntV(64, args[0].len)

def m_hm_get(I, args, callee):
    hm = unwrap_ref(I, args[0])
    k = unwrap_ref(I, args[1])
    for kk, vv in hm.fields:
        if kk.fields[0].v == k.fields[0].v:
            return opt_some(Ref(Cell(Agg('tuple', [vv])), (('f', 0),)))
    return opt_none()

def m_hm_insert(I, args, callee):
    hm = unwrap_ref(I, args[0])
    k, v = args[1], args[2]
    for i, (kk, vv) in enumerate(hm.fields):
        if kk.fields[0].v == k.fields[0].v:
            hm.fields[i] = (kk, v)
            return opt_some(vv)
    hm.fields.append((k, v))
    return opt_none()

def m_hm_default(I, args, callee):
    return Agg('HashMap', [])

def m_id_from_canonical(I, args, callee):
    gf = unwrap_ref(I, args[0])
    name = args[1]
    nb = name.fields[0].fields
    if not all(b.conc() for b in nb):
        raise Unsupported('symbolic file name')
    key = bytes(b.v for b in nb)
    files = gf.fields[0].fields[0].fields
    for i, f in enumerate(files):
        if bytes(b.v for b in f.fields[0].fields[0].fields) == key:
            return fileid(i)
    files.append(Agg('File', [name, opt_none(), vec([])]))
    return fileid(len(files) - 1)

def m_from_elem(I, args, callee):
    el, n = args
    if not n.conc():
        raise Unsupported('symbolic vec![x; n]')
    return vec([el for _ in range(n.v)])

def m_as_mut_slice(I, args, callee):
    r = args[0]
    v = I.load(r.cell, r.path)
    return SliceRef(r.cell, r.path, 0, len(v.fields))

def m_string_from_utf8(I, args, callee):
    return Agg('String', [args[0]])

def m_range_into_iter(I, args, callee):
    return args[0]

def m_range_next(I, args, callee):
    r = unwrap_ref(I, args[0])
    a, b = r.fields
    lt = I.binop('Lt', a, b)
    if I.branch_bool(lt):
        r.fields[0] = I.binop('Add', a, IntV(a.w, 1))
        return opt_some(a)
    return opt_none()

def m_slice_ne(I, args, callee):
    a, b = unwrap_ref(I, args[0]), unwrap_ref(I, args[1])
    r = M.str_eq(I, a, b)
    return BoolV((not r.v) if r.conc() else z3.Not(r.v))

def m_bufreader_new(I, args, callee):
    return Agg('BufReader', [args[0]])

def m_result_map_id(I, args, callee):
    r = args[0]
    if r.variant == 'Ok':
        return Agg('Result', [Agg('Id', [r.fields[0]])], 'Ok')
    return r

def m_default_struct(kind, mk):
    def f(I, args, callee):
        return mk()
    return f

def m_copied(I, args, callee):
    o = args[0]
    if o.variant == 'None':
        return o
    return opt_some(unwrap_ref(I, o.fields[0]))

def m_vec_default(I, args, callee):
    return vec([])

def m_vec_u8_deref(I, args, callee):
    r = args[0]
    v = I.load(r.cell, r.path)
    return SliceRef(r.cell, r.path, 0, len(v.fields))

def m_k_from(I, args, callee):
    n = args[0]
    return Agg('Id', [IntV(32, n.v)])

EXTRA = [
    (r'^array::<impl \[u8; \d+\]>::as_slice$', m_array_as_slice),
    (r'^core::str::<impl str>::as_bytes$', M.m_identity),
    (r'^<\[u8; \d+\] as (std::ops::)?Index(Mut)?<RangeFull>>::index(_mut)?$', m_array_as_slice),
    (r'^<K as From<usize>>::from$', m_k_from),
    (r'^<std::fs::File as std::io::Write>::write_all$|^<impl Write as std::io::Write>::write_all$', m_write_all),
    (r'^<BufReader<.*> as std::io::Read>::read_exact$', m_read_exact),
    (r'^std::io::Error::kind$', m_err_kind),
    (r'impl u16>::to_le_bytes$', m_to_le(16)), (r'impl u32>::to_le_bytes$', m_to_le(32)), (r'impl u64>::to_le_bytes$', m_to_le(64)),
    (r'impl u16>::from_le_bytes$', m_from_le(16)), (r'impl u32>::from_le_bytes$', m_from_le(32)), (r'impl u64>::from_le_bytes$', m_from_le(64)),
    (r'^<\[u8; \d+\] as (std::ops::)?Index(Mut)?<RangeTo<usize>>>::index(_mut)?$', m_array_index_rangeto),
    (r'^Vec::<u8>::extend_from_slice$', m_extend_from_slice),
    (r'^<String as Deref>::deref$', m_string_deref),
    (r'^core::str::<impl str>::len$', m_str_len),
    (r'^core::str::<impl str>::as_bytes$', M.m_identity),
    (r'^HashMap::<.*>::get::', m_hm_get),
    (r'^HashMap::<.*>::insert$', m_hm_insert),
    (r'^<HashMap<.*> as Default>::default$', m_hm_default),
    (r'^GraphFiles::id_from_canonical$', m_id_from_canonical),
    (r'^std::vec::from_elem::<u8>$', m_from_elem),
    (r'^Vec::<u8>::as_mut_slice$', m_as_mut_slice),
    (r'^String::from_utf8_unchecked$', m_string_from_utf8),
    (r'^<std::ops::Range<.*> as IntoIterator>::into_iter$', m_range_into_iter),
    (r'^<std::ops::Range<.*> as Iterator>::next$', m_range_next),
    (r'^<&\[u8\] as PartialEq>::ne$', m_slice_ne),
    (r'^BufReader::<.*>::new$', m_bufreader_new),
    (r'^Result::<u32, std::io::Error>::map::<Id, fn', m_result_map_id),
    (r'^<Vec<u8> as Default>::default$', m_vec_default),
    (r'^<Vec<u8> as Deref>::deref$', m_vec_u8_deref),
    (r'^Option::<&.*>::copied$', m_copied),
    (r'^anyhow::|anyhow::kind::', S.m_anyhow),
]

def main():
    fns = parse_mir('/tmp/s/n2.mir', '/tmp/s/n2s.mir')
    I = Interp(fns, M.src_enums(M.SRC_ROOT))
    I.enums['ErrorKind'] = ['NotFound', 'UnexpectedEof']
    I.named_consts = {}
    for line in open('/tmp/s/n2.mir'):
        m = re.match(r'^const ([\w:]+): \w+ = const (.*);$', line)
        if m:
            I.named_consts[m.group(1)] = m.group(2)
    I.models = EXTRA + S.EXTRA + M.MODELS
    def fn(pat):
        c = [f for f in fns if re.search(pat, f.name)]
        assert len(c) == 1, (pat, [f.name for f in c])
        return c[0]
    write_signature = fn(r'^db::.*::write_signature$')
    write_build = fn(r'^db::.*::write_build$')
    read_file = fn(r'^db::.*::read_file$')
    work = [[]]
    npaths = 0
    ends = collections.Counter()
    fails = {}
    t0 = time.time()
    while work:
        prefix = work.pop()
        I.start_path(prefix)
        try:
            g1 = mk_graph()
            file = Agg('File', [vec([]), None, 0])
            w = Agg('Writer', [idmap(), file])
            wc = Cell(w)
            r = I.call(write_signature, [Ref(wc, ())])
            h0 = IntV(64, z3.BitVec('h0', 64))
            h1 = IntV(64, z3.BitVec('h1', 64))
            gc = Cell(g1)
            I.call(write_build, [Ref(wc, ()), Ref(gc, ()), buildid(0), Agg('BuildHash', [h0])])
            end0 = len(file.fields[0].fields)
            I.call(write_build, [Ref(wc, ()), Ref(gc, ()), buildid(1), Agg('BuildHash', [h1])])
            end1 = len(file.fields[0].fields)
            if npaths == 0: print('file:', file.fields[0].fields)
            # crash: a symbolic number of bytes survived
            cut = z3.BitVec('cut', 64)
            I.solver.add(z3.ULE(cut, end1))
            f2 = Agg('File', [file.fields[0], IntV(64, cut), 0])
            g2 = mk_graph()
            hashes = Agg('Hashes', [Agg('HashMap', [])])
            rd = Agg('Reader', [Agg('BufReader', [Ref(Cell(f2), ())]), idmap(), Ref(Cell(g2), ()), Ref(Cell(hashes), ())])
            res = I.call(read_file, [Ref(Cell(rd), ())])
            ends[res.variant + (':' + repr(res.fields[0].parts)[:80] if res.variant == 'Err' else '')] += 1
            got = {k.fields[0].v: v for k, v in hashes.fields[0].fields}
            # C07 assertions
            if res.variant != 'Ok':
                I.solver.push()
                m = I.model_now()
                I.failures.append((f'C07: load fails on a torn log (record boundaries {8},{end0},{end1})', m))
                I.solver.pop()
            else:
                # which records lie wholly inside the prefix?  decided by the solver
                for b, endb, h in ((0, end0, h0), (1, end1, h1)):
                    inside = I.binop('Ge', IntV(64, cut), IntV(64, endb))
                    if b in got:
                        I.oblige(inside, f'C07: record {b} loaded although torn')
                        I.oblige(I.binop('Eq', got[b].fields[0], h), f'C07: record {b} loaded with other content')
                    else:
                        ninside = BoolV(z3.Not(inside.v)) if not inside.conc() else BoolV(not inside.v)
                        I.oblige(ninside, f'C07: complete record {b} not loaded')
        except PathEnd as e:
            ends['end:' + str(e).split(':')[0]] += 1
        npaths += 1
        for what, m in I.failures:
            if what not in fails:
                cutv = m.eval(z3.BitVec('cut', 64), model_completion=True).as_long() if m is not None else None
                fails[what] = cutv
        work.extend(I.pending)
    dt = time.time() - t0
    print(f'C07 spike: paths={npaths} time={dt:.1f}s queries={I.stats["queries"]} ends={dict(ends)}')
    for what, cutv in fails.items():
        print('  FAIL:', what, '| e.g. surviving bytes =', cutv)

if __name__ == '__main__':
    try:
        main()
    except Unsupported as e:
        print('UNSUPPORTED:', e)
        sys.exit(2)
