// Throw-away Kani probe appended to src/depfile.rs of a scratch copy (see DESIGN.md section 2).
#[cfg(kani)]
mod kani_probe {
    use super::*;
    fn fmt_stub(_args: std::fmt::Arguments<'_>) -> String {
        String::new()
    }
    macro_rules! dep {
        ($name:ident, $m:expr, $unw:expr) => {
            #[kani::proof]
            #[kani::unwind($unw)]
            #[kani::stub(std::fmt::format, fmt_stub)]
            fn $name() {
                let mut buf: [u8; $m] = kani::any();
                buf[$m - 1] = 0;
                for i in 0..$m - 1 {
                    let b = buf[i];
                    kani::assume(b == b'a' || b == b' ' || b == b':' || b == b'\\' || b == b'\n' || b == 0);
                }
                let mut scanner = Scanner::new(&buf);
                let r = parse(&mut scanner);
                if let Ok(m) = &r {
                    assert!(scanner.ofs == $m);
                    let _ = m;
                }
                std::mem::forget(r);
            }
        };
    }
    dep!(dep_total_4, 5, 7);
    dep!(dep_total_6, 7, 9);
}
