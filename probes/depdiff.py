#!/usr/bin/env python3
"""Spike: C15 differential — depfile::parse (real MIR) vs spec::parse (reference, also MIR) on the same symbolic buffer."""
import sys, re, time, collections, os
import z3
import mirsym as M
from mirsym import *
import sched as S
from sched import unwrap_ref

N = int(sys.argv[1])
ALPHA = sys.argv[2] if len(sys.argv) > 2 else ''

def main():
    fns = parse_mir('/tmp/s/spec.mir', '/tmp/s/specs.mir')
    M.SRC_ROOT = '/tmp/s/n2spec'
    I = Interp(fns, M.src_enums(M.SRC_ROOT))
    I.models = M.MODELS + S.EXTRA
    byname = {f.name: f for f in fns}
    impl = byname['depfile::parse']
    spec = byname['spec::parse']
    work = [[]]
    npaths = 0
    ends = collections.Counter()
    fails = {}
    t0 = time.time()
    while work:
        prefix = work.pop()
        I.start_path(prefix)
        try:
            buf = M.sym_buf(I, N)
            for i in range(N):
                b = z3.BitVec(f'b{i}', 8)
                if ALPHA:
                    I.solver.add(z3.Or([b == ord(c) for c in ALPHA]))
                else:
                    I.solver.add(b != 0)
            sc = Agg('Scanner', [buf, IntV(64, 0), IntV(64, 1)])
            r1 = I.call(impl, [Ref(Cell(sc), ())])
            r2 = I.call(spec, [buf])
            if r1.variant == 'Ok':
                got = []
                for kv in r1.fields[0].fields[0].fields:
                    t, deps = kv.fields
                    got.append(((t.start, t.len), [(d.start, d.len) for d in deps.fields]))
                got_flat = [d for _, ds in got for d in ds]
            else:
                got = None
            if r2.variant == 'Some':
                want = []
                for e in r2.fields[0].fields:
                    t0_, t1_, deps = e.fields
                    want.append(((t0_.v, t1_.v - t0_.v), [(d.fields[0].v, d.fields[1].v - d.fields[0].v) for d in deps.fields]))
                want_flat = [d for _, ds in want for d in ds]
            else:
                want = None
            if (got is None) != (want is None):
                kind = 'impl rejects, spec accepts' if got is None else 'impl accepts, spec rejects'
                I.failures.append((kind, I.model_now()))
                ends[kind] += 1
            elif got is not None and got_flat != want_flat:
                I.failures.append(('both accept, discovered deps differ', I.model_now()))
                ends['differ'] += 1
            else:
                ends['agree:' + ('accept' if got is not None else 'reject')] += 1
        except PathEnd as e:
            ends['end:' + str(e).split(':')[0]] += 1
        npaths += 1
        for what, m in I.failures:
            if what not in fails or len(fails[what]) < 4:
                fails.setdefault(what, []).append(M.model_bytes(m, N))
        work.extend(I.pending)
    print(f'C15 differential N={N}: paths={npaths} time={time.time()-t0:.1f}s queries={I.stats["queries"]} ends={dict(ends)}')
    for what, ex in fails.items():
        print('  DISAGREE:', what, '| e.g.', ex)

if __name__ == '__main__':
    try:
        main()
    except Unsupported as e:
        print('UNSUPPORTED:', e)
        sys.exit(2)
