// Throw-away Kani probe appended to src/graph.rs of a scratch copy (see DESIGN.md section 2).
#[cfg(kani)]
mod kani_probe {
    use super::*;
    #[kani::proof]
    #[kani::unwind(6)]
    fn dedup_4() {
        let raw: [u32; 4] = kani::any();
        for i in 0..4 {
            kani::assume(raw[i] < 4);
        }
        let explicit: usize = kani::any();
        kani::assume(explicit <= 4);
        let mut outs = BuildOuts {
            ids: vec![FileId(raw[0]), FileId(raw[1]), FileId(raw[2]), FileId(raw[3])],
            explicit,
        };
        outs.remove_duplicates();
        // oracle: number of distinct ids among the first `explicit`
        let mut distinct = 0;
        for i in 0..4 {
            if i < explicit {
                let mut seen = false;
                for j in 0..4 {
                    if j < i && raw[j] == raw[i] {
                        seen = true;
                    }
                }
                if !seen {
                    distinct += 1;
                }
            }
        }
        assert!(outs.explicit == distinct);
        assert!(outs.explicit <= outs.ids.len());
    }
}
