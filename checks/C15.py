"""C15 - depfiles are read as the compiler wrote them.

Engine M, differential: the real MIR of task::read_depfile -> depfile::parse (+ skip_spaces, read_path, Scanner::*,
SmallMap::*, the flattening closure chain, format_parse_error on the error path) and the reference model
depfile::verif_spec::flat (hooks/depfile.rs, compiled into the same MIR dump) are executed on the SAME symbolic
buffer.  Every branch is a solver query; the assertion on every path is
   spec malformed  <=>  read_depfile returns Err (whose message names the depfile), and
   spec well-formed => Ok with exactly the spec's prerequisites, byte for byte, in order.
A reproducing model (native replay of both sides on the concrete bytes) is a violation.
"""
import z3

import mirsym as M
from mirsym import Agg, Cell, IntV, Opaque, Ref, SliceRef, err, ok
from mirsym.models import anyhow_text, conc_bytes, elems, as_slice, val_eq
from lib.driver import Violation
from lib.mcheck import Replayer, finish_exploration, hexs, load_interp, merge_cov

LEVEL = 'other'
PATHNAME = b'sub/dep.d'


def m_read_file(H):
    def read_file_with_nul(I, args, callee):
        if H.mode == 'notfound':
            return err(Opaque('io::Error', ('NotFound',)))
        if H.mode == 'ioerr':
            return err(Opaque('io::Error', ('PermissionDenied',)))
        return ok(Agg('Vec', list(H.bytes)))
    return read_file_with_nul


def m_err_kind(I, args, callee):
    e = I.deref(args[0])
    return Agg('ErrorKind', [], e.parts[0])


class Harness:
    """N symbolic bytes over an alphabet (None = every non-NUL byte), then the NUL terminator"""

    def __init__(self, I, n, alphabet):
        self.n, self.alphabet = n, alphabet
        self.mode = 'bytes'
        self.allow_cr = False
        self.impl = I.fn('read_depfile', 'task.rs')
        self.spec = I.fn('flat', 'depfile.rs')
        import re
        I.set_overrides([(r'read_file_with_nul$', m_read_file(self)), (r'^std::io::Error::kind$', m_err_kind)])
        I.add_enum('ErrorKind', ['NotFound', 'PermissionDenied', 'UnexpectedEof', 'Other'])

    def mkbuf(self, I):
        bs = []
        for i in range(self.n):
            b = I.fresh_int('b%d' % i, 8)
            if self.alphabet:
                I.solver.add(z3.Or([b.v == c for c in self.alphabet]))
            else:
                I.solver.add(b.v != 0)
                if not self.allow_cr:
                    I.solver.add(b.v != 13)
            bs.append(b)
        bs.append(IntV(8, 0))
        return bs

    def run_path(self, I):
        self.bytes = self.mkbuf(I)
        path = M.static_str(PATHNAME)
        r1 = I.call_fn(self.impl, [path])
        buf = SliceRef(Cell(Agg('bytes', list(self.bytes))), (), 0, self.n + 1)
        r2 = I.call_fn(self.spec, [buf])
        if r2.variant == 'None':
            if r1.variant == 'Ok':
                I.fail('accepts-malformed', 'malformed depfile accepted (spec rejects, n2 returns %d deps)' % len(r1.fields[0].fields))
            msg = anyhow_text_partial(I, r1.fields[0])
            if PATHNAME not in msg or b'parse error' not in msg:
                I.fail('error-without-depfile-name', 'parse error does not name the depfile: %r' % msg)
            return 'reject'
        want = r2.fields[0].fields
        if r1.variant == 'Err':
            I.fail('rejects-wellformed', 'well-formed depfile rejected: %r' % anyhow_text_partial(I, r1.fields[0]))
        got = r1.fields[0].fields
        if len(got) != len(want):
            I.fail('deps-differ', 'n2 reports %d prerequisites, the depfile lists %d' % (len(got), len(want)))
        for g, w in zip(got, want):
            a, b = w.fields[0].v, w.fields[1].v
            ws = SliceRef(buf.cell, (), a, b - a)
            I.oblige(val_eq(I, g, ws), 'deps-differ', 'a reported prerequisite differs from the one listed')
        return 'accept:%d' % len(want)


class Structured(Harness):
    """abstract depfile (entries with possibly repeated targets, 0-2 prerequisites each) rendered under symbolic
    formatting; the reported prerequisites must be the listed ones, in order (abstract-side oracle)"""

    SEPS = [b' ', b'  ', b' \\\n ', b'\\\n']

    def __init__(self, I, nentries):
        Harness.__init__(self, I, 0, None)
        self.nentries = nentries

    def run_path(self, I):
        sep = self.SEPS[I.choose('sep', len(self.SEPS))]
        colon_space = I.choose('space_before_colon', 2) == 1
        final_nl = I.choose('final_newline', 2) == 1
        text = []
        want = []
        for e in range(self.nentries):
            t = [b't1', b't2'][I.choose('target%d' % e, 2)]
            nd = I.choose('ndeps%d' % e, 3)
            text += [IntV(8, c) for c in t]
            if colon_space:
                text.append(IntV(8, 32))
            text.append(IntV(8, 58))
            for k in range(nd):
                text += [IntV(8, c) for c in sep]
                b = I.fresh_int('d%d_%d' % (e, k), 8)
                for c in (0, 10, 13, 32, 92, 58):
                    I.solver.add(b.v != c)
                dep = [IntV(8, ord('p')), b]
                text += dep
                want.append(dep)
            if e + 1 < self.nentries or final_nl:
                text.append(IntV(8, 10))
            if e + 1 < self.nentries and I.choose('blank%d' % e, 2) == 1:
                text.append(IntV(8, 10))
        self.n = len(text)
        self.bytes = text + [IntV(8, 0)]
        r1 = I.call_fn(self.impl, [M.static_str(PATHNAME)])
        if r1.variant != 'Ok':
            I.fail('rejects-wellformed', 'well-formed structured depfile rejected: %r' % anyhow_text_partial(I, r1.fields[0]))
        got = r1.fields[0].fields
        if len(got) != len(want):
            I.fail('deps-differ', 'n2 reports %d prerequisites, the depfile lists %d' % (len(got), len(want)))
        for g, w in zip(got, want):
            gb = g.fields[0].fields
            if len(gb) != len(w):
                I.fail('deps-differ', 'a reported prerequisite has another length than the one listed at that position')
            for x, y in zip(gb, w):
                I.oblige(I.binop('Eq', x, y), 'deps-differ', 'prerequisites are not reported in the order listed')
        return 'accept:%d' % len(want)


def anyhow_text_partial(I, e):
    """message bytes with symbolic bytes shown as '?'"""
    if isinstance(e, Opaque) and e.parts and isinstance(e.parts[0], Agg) and e.parts[0].kind == 'String':
        return bytes(b.v if b.conc() else 63 for b in e.parts[0].fields[0].fields)
    return b''


def model_bytes(model, n):
    return bytes(model.get('b%d' % i, 97) for i in range(n))


def classify(ans):
    """native answer -> (impl_ok, impl_list, spec_ok, spec_list)"""
    import re
    m = re.match(r'^impl=(ok|err) \[([^\]]*)\] spec=(ok|err) \[([^\]]*)\]$', ans)
    if not m:
        return None
    return m.group(1) == 'ok', m.group(2), m.group(3) == 'ok', m.group(4)


def native_disagrees(ans):
    c = classify(ans)
    if c is None:
        return True, 'native run did not complete: ' + ans[:200]
    iok, il, sok, sl = c
    if iok != sok:
        return True, ('n2 accepts, reference rejects' if iok else 'n2 rejects, reference accepts') + ': ' + ans[:200]
    if iok and il != sl:
        return True, 'prerequisites differ: ' + ans[:200]
    if not iok and PATHNAME.hex() not in il and b'dep.d'.hex() not in il:
        return True, 'error text does not name the depfile: ' + ans[:200]
    return False, ans[:200]


def run(ctx, out):
    I = load_interp(ctx)
    rep = Replayer(ctx.tree)
    cov = out.coverage
    if ctx.quick():
        families = [(n, None) for n in (1, 2, 3, 4, 5)] + [(7, b'a: \\\n'), (8, b'a: \n')]
        budget = 1500
    else:
        families = [(n, None) for n in (1, 2, 3, 4, 5, 6, 7)] + [(9, b'a: \\\n'), (8, b'a:/ \\\n'), (11, b'a: \n')]
        budget = 6 * 3600
    samples = []
    for n, alpha in families:
        H = Harness(I, n, list(alpha) if alpha else None)
        ex = M.explore(I, H, jobs=ctx.jobs, time_budget=budget, keep_all=True)
        name = 'read_depfile N=%d alphabet=%s' % (n, 'all bytes but NUL, CR' if alpha is None else repr(alpha.decode()))
        merge_cov(cov, name, ex, {'outcomes': summarize(ex)})
        finish_exploration(out, ex, name)
        for key, lst in ex.failures.items():
            for desc, model, extra in lst[:3]:
                if model is None:
                    out.inconclusive.append('%s: failure without a model: %s' % (name, desc))
                    continue
                bs = model_bytes(model, n)
                ans = rep.ask('depfile ' + hexs(bs))
                bad, detail = native_disagrees(ans)
                out.add(Violation('M:depfile:' + key, '%s on input %r: %s' % (desc, bs, detail),
                                  replay={'cmd': 'depfile', 'bytes_hex': bs.hex(), 'native': ans}, reproduced=bad))
        samples += [{'harness': name, 'path_outcome': s} for s in ex.summaries[:3]]
    # structured depfiles with repeated targets under symbolic formatting
    for ne in ((2, 3) if ctx.quick() else (2, 3, 4)):
        H = Structured(I, ne)
        ex = M.explore(I, H, jobs=ctx.jobs, time_budget=budget, keep_all=True)
        name = 'structured depfile: %d entries over 2 targets, 0-2 prerequisites each, symbolic formatting' % ne
        merge_cov(cov, name, ex, {'outcomes': summarize(ex)})
        finish_exploration(out, ex, name)
        for key, lst in ex.failures.items():
            for desc, model, extra in lst[:2]:
                out.add(Violation('M:depfile:' + key, desc + ' (structured family)', replay={'model': model}, reproduced=model is not None))
    # missing depfile / unreadable depfile
    for mode, want in (('notfound', 'Ok'), ('ioerr', 'Err')):
        H = Harness(I, 0, None)
        H.mode = mode

        class One:
            def run_path(self, I, H=H, want=want):
                r = I.call_fn(H.impl, [M.static_str(PATHNAME)])
                if r.variant != want or (want == 'Ok' and r.fields[0].fields):
                    I.fail('missing-depfile', 'read_depfile on %s returned %s' % (H.mode, r.variant))
                return H.mode + '->' + r.variant
        ex = M.explore(I, One(), jobs=1)
        merge_cov(cov, 'read_depfile ' + mode, ex)
        finish_exploration(out, ex, mode)
        for key, lst in ex.failures.items():
            out.add(Violation('M:depfile:' + key, lst[0][0], replay={'mode': mode}, reproduced=True))
    rep.close()
    cov.update({
        'explanation': 'bounded symbolic execution (mirsym over the MIR of the current tree, z3 deciding every branch): '
                       'task::read_depfile/depfile::parse and the reference reading verif_spec::flat run on the same '
                       'symbolic NUL-terminated buffer; per path the solver shows both reject, or both accept with '
                       'byte-identical prerequisite lists; each family covers ALL strings of that length over its alphabet.',
        'bounds': {'families': [{'length': n, 'alphabet': 'all 254 byte values other than NUL and CR' if a is None else a.decode()} for n, a in families]},
        'evaluations': cov.get('paths', 0), 'distinct_nontrivial': cov.get('paths', 0),
        'rule': 'one evaluation = one feasible path class of (implementation x reference) closed by the solver; classes are distinct by construction (different branch decisions)',
        'samples': samples[:12],
        'native_replays': rep.count,
        'outside_the_claim': ['depfiles longer than the stated lengths', 'bytes after an interior NUL (the scanner stops at the first NUL by design)',
                              'carriage returns: Scanner::back() steps over a CR before a newline even without the optional `crlf` feature, so CRLF depfiles need that feature (outside the alphabet the property states)'],
    })
    out.assumptions += ['std models listed under std_models_used implement the documented contracts',
                        'reference model hooks/depfile.rs::verif_spec is the meaning of "as the compiler wrote them"',
                        'scanner::read_file_with_nul returns the file content followed by one NUL (its contract)']


def summarize(ex):
    c = {}
    for s in (ex.all_summaries or ex.summaries):
        c[s] = c.get(s, 0) + 1
    return c


def replay(ctx, cex):
    rep = Replayer(ctx.tree)
    ans = rep.ask('depfile ' + (cex['replay'].get('bytes_hex') or '-'))
    bad, detail = native_disagrees(ans)
    print(('REPRODUCED: ' if bad else 'NOT-REPRODUCED: ') + detail)
    return 1 if bad else 0
