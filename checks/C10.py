"""C10 - manifest syntax is read into exactly the declared graph.

Engine M, structured families (checks/manifestlib.py): an abstract build statement (1-2 explicit and 0-1 implicit
outputs; 0-2 explicit, 0-1 implicit, 0-1 order-only, 0-1 validation inputs; a path needing a `$ ` / `$:` / `$$`
escape; symbolic bytes inside names) plus rule, pool and default statements is rendered under a symbolic choice of
separator spelling (one or two spaces, ` $\\n` continuations with and without indentation, optional spaces around
`:` and `|`), the real loader runs on the text, and the loaded graph must have exactly the declared paths in their
declared roles and order and the evaluated command.  A second family renders a command value from literal bytes,
`$v` / `${v}` references, `$$` `$ ` `$:` escapes and mid-value line continuations; the evaluated text must be the
concatenation that Ninja's rules give, whatever the spelling.
"""
import re

import z3

import mirsym as M
from mirsym import IntV
from lib.driver import Violation
from lib.mcheck import Replayer, finish_exploration, hexs, load_interp, merge_cov
from checks import manifestlib as ML
from checks.manifestlib import B, Loaded, ManifestHarness, Text, bytes_eq, compare_build, expand, plain, show, sym_name_byte

LEVEL = 'other'
SEPS = [b' ', b'  ', b' $\n', b' $\n    ']


class BuildLine(ManifestHarness):
    """roles, order, escapes and separator spelling of one build statement (+ pool / default)"""

    def generate(self, I):
        sep = SEPS[I.choose('sep', len(SEPS))]
        tight = I.choose('tight', 2) == 1          # no optional spaces around ':' and '|'
        n_eo = 1 + I.choose('n_eo', 2)
        n_io = I.choose('n_io', 2)
        n_ei = I.choose('n_ei', 3)
        n_ii = I.choose('n_ii', 2)
        n_oi = I.choose('n_oi', 2)
        n_vi = I.choose('n_vi', 2)
        special = I.choose('special', 4)
        sb = sym_name_byte(I, 'nm')                # one symbolic byte inside a name
        I.solver.add(sb.v != ord('.'), sb.v != ord('/'), sb.v != ord('\\'))

        def nm(tag, k):
            return B(tag) + [sb] + B(str(k))
        eo = [nm('o', k) for k in range(n_eo)]
        io = [nm('p', k) for k in range(n_io)]
        ei = [nm('i', k) for k in range(n_ei)]
        ii = [nm('j', k) for k in range(n_ii)]
        oi = [nm('k', k) for k in range(n_oi)]
        vi = [nm('v', k) for k in range(n_vi)]
        # the first explicit input may need an escape in the text
        texts = {}
        if n_ei and special:
            ch = {1: b' ', 2: b':', 3: b'$'}[special]
            ei[0] = B('i') + B(ch) + [sb]
            texts[0] = B('i$') + B(ch) + [sb]
        t = Text()
        t.add('rule r\n  command = c $in > $out\n')
        t.add('pool pl\n  depth = 3\n')
        t.add('build')
        for p in eo:
            t.add(sep).add(p)
        if n_io:
            t.add(sep if not tight else b' ').add('|')
            for p in io:
                t.add(sep).add(p)
        t.add(b'' if tight else sep).add(':').add(b' ' if tight else sep).add('r')
        for k, p in enumerate(ei):
            t.add(sep).add(texts.get(k, p))
        if n_ii:
            t.add(sep).add('|')
            for p in ii:
                t.add(sep if not tight else b' ').add(p)
        if n_oi:
            t.add(sep).add('||')
            for p in oi:
                t.add(sep if not tight else b' ').add(p)
        if n_vi:
            t.add(sep).add('|@')
            for p in vi:
                t.add(sep if not tight else b' ').add(p)
        t.add('\n  pool = pl\n')
        t.add('default').add(sep).add(eo[0]).add('\n')
        cmd = B('c ')
        for k, p in enumerate(ei):
            cmd += (B(' ') if k else []) + p
        cmd += B(' > ')
        for k, p in enumerate(eo):
            cmd += (B(' ') if k else []) + p
        want = {'explicit_outs': eo, 'implicit_outs': io, 'explicit_ins': ei, 'implicit_ins': ii, 'order_only_ins': oi,
                'validation_ins': vi, 'cmdline': cmd, 'pool': B('pl'), 'desc': None, 'depfile': None}

        def expect(I, r):
            ex = self.extra()
            if r.variant != 'Ok':
                I.fail('rejected', 'a well-formed manifest is rejected: %r' % LL_msg(r), extra=ex)
            ld = Loaded(self.L, r.fields[0])
            if len(ld.builds) != 1:
                I.fail('step-count', 'the manifest declares 1 step, %d loaded' % len(ld.builds), extra=ex)
            compare_build(I, ld.build(0), want, ex)
            d = ld.defaults()
            if len(d) != 1:
                I.fail('default', 'one default target declared, %d loaded' % len(d), extra=ex)
            bytes_eq(I, d[0], eo[0], 'default', 'the default target differs', ex)
            pools = ld.pools()
            if len(pools) != 1 or show(pools[0][0]) != b'pl' or not (pools[0][1].conc() and pools[0][1].v == 3):
                I.fail('pool', 'pool pl depth 3 declared, loaded %r' % [(show(a), b) for a, b in pools], extra=ex)
            return 'ok'
        return t.bs, {}, expect


def LL_msg(r):
    from checks import loaderlib
    return loaderlib.msg_bytes(r.fields[0])[:120]


class ValueSpelling(ManifestHarness):
    """a command built from literal bytes, $v / ${v} references, escapes and mid-value continuations"""

    def generate(self, I):
        t = Text()
        v0 = sym_name_byte(I, 'v0')
        t.add('v = h').add([v0]).add('\nrule r\n  command = ')
        want = []
        nparts = self.nparts
        for k in range(nparts):
            kind = I.choose('part%d' % k, 7)
            if kind == 0:      # literal byte (anything but $, newline, NUL, CR); a leading space would be skipped
                b = I.fresh_int('lit%d' % k, 8)
                for c in (0, 10, 13, 36):
                    I.solver.add(b.v != c)
                if k == 0:
                    I.solver.add(b.v != 32)
                t.add([b])
                want += [b]
            elif kind == 1:    # ${v}
                t.add('${v}')
                want += B('h') + [v0]
            elif kind == 2:    # $v followed by a byte that cannot continue a variable name
                b = I.fresh_int('after%d' % k, 8)
                for c in (0, 10, 13, 36):
                    I.solver.add(b.v != c)
                for c in ML.VARCHARS:
                    I.solver.add(b.v != c)
                t.add('$v').add([b])
                want += B('h') + [v0, b]
            elif kind == 3:
                t.add('$$')
                want += B('$')
            elif kind == 4:
                t.add('$ ')
                want += B(' ')
            elif kind == 5:
                t.add('$:')
                want += B(':')
            else:              # line continuation in the middle of the value: the next line's indentation is dropped
                ind = I.choose('indent%d' % k, 3)
                t.add('x$\n').add(b' ' * (2 * ind)).add('y')
                want += B('xy')
        t.add('\nbuild o: r i\n')

        def expect(I, r):
            ex = self.extra()
            if r.variant != 'Ok':
                I.fail('rejected', 'a well-formed manifest is rejected: %r' % LL_msg(r), extra=ex)
            ld = Loaded(self.L, r.fields[0])
            got = ld.build(0)['cmdline']
            if got is None:
                I.fail('attr-presence:cmdline', 'no command loaded', extra=ex)
            bytes_eq(I, got, want, 'attr:cmdline', 'the evaluated command differs from what the value spells', ex)
            return 'ok'
        return t.bs, {}, expect


class Attributes(ManifestHarness):
    """two rules, two build statements, every step attribute the property names (description, depfile, deps, rspfile +
    rspfile_content, pool, hide_success / hide_progress) bound at rule level, at build level (once or twice: the last binding wins) or not at all; whole-line
    comments (symbolic bytes, may contain `$`, `:`, `|`, `#`) and blank lines at a symbolic position between statements"""

    def generate(self, I):
        nb = sym_name_byte(I, 'nm')
        I.solver.add(nb.v != ord('.'), nb.v != ord('/'), nb.v != ord('\\'))
        c0 = I.fresh_int('cm0', 8)
        c1 = I.fresh_int('cm1', 8)
        for c in (c0, c1):
            for x in (0, 10, 13):
                I.solver.add(c.v != x)
        where = I.choose('comment_at', 6)          # 0 none | 1 top | 2 after rule r | 3 between the builds | 4 at the end without newline | 5 blank lines
        where_desc = I.choose('desc', 3)           # absent | rule | build (build shadows rule)
        where_dep = I.choose('depfile', 3)         # absent | rule | build
        deps = I.choose('deps', 3)                 # absent | gcc | msvc
        rsp = I.choose('rsp', 3)                   # absent | rule | build
        hide = I.choose('hide', 3)                 # none | hide_success at rule | hide_progress at build
        second = I.choose('second', 2)             # second step: plain rule s | phony
        t = Text()

        def comment(k):
            if where == k:
                t.add('#').add([c0, c1]).add(' $x : | #\n')
            elif where == 5 and k in (1, 2, 3):
                t.add('\n\n')
        comment(1)
        t.add('pool pl\n  depth = 2\n')
        t.add('rule r\n  command = c $in\n')
        if where_desc >= 1:
            t.add('  description = D $out\n')
        if where_dep == 1:
            t.add('  depfile = $out.d\n')
        if deps:
            t.add('  deps = %s\n' % ('gcc' if deps == 1 else 'msvc'))
        if rsp == 1:
            t.add('  rspfile = $out.rsp\n  rspfile_content = R $in\n')
        if hide == 1:
            t.add('  hide_success = 1\n')
        t.add('  pool = pl\n')
        comment(2)
        t.add('rule s\n  command = s $out\n  description = S\n')
        o1 = B('o') + [nb]
        i1 = B('i') + [nb]
        t.add('build ').add(o1).add(': r ').add(i1).add('\n')
        dup = I.choose('dup', 2) == 1              # a binding repeated inside the build block: the last one wins
        if where_desc == 2:
            if dup:
                t.add('  description = first\n')
            t.add('  description = B').add([nb]).add('\n')
        if where_dep == 2:
            t.add('  depfile = dd').add([nb]).add('\n')
        if rsp == 2:
            t.add('  rspfile = rr\n  rspfile_content = C').add([nb]).add('\n')
        if hide == 2:
            t.add('  hide_progress = 1\n')
        comment(3)
        o2 = B('p') + [nb]
        t.add('build ').add(o2).add(': ' + ('s' if second == 0 else 'phony') + ' ').add(o1).add('\n')
        if where == 4:
            t.add('# ').add([c0, c1])
        want1 = {'explicit_outs': [o1], 'explicit_ins': [i1], 'cmdline': B('c ') + i1, 'pool': B('pl'),
                 'desc': {0: None, 1: B('D ') + o1, 2: B('B') + [nb]}[where_desc],
                 'depfile': {0: None, 1: o1 + B('.d'), 2: B('dd') + [nb]}[where_dep]}
        rsp1 = {0: None, 1: (o1 + B('.rsp'), B('R ') + i1), 2: (B('rr'), B('C') + [nb])}[rsp]
        want2 = {'explicit_outs': [o2], 'explicit_ins': [o1], 'pool': None, 'depfile': None,
                 'cmdline': (B('s ') + o2) if second == 0 else None, 'desc': B('S') if second == 0 else None}

        def flag(I, got, want, key, what):
            if not got.conc() or bool(got.v) != want:
                I.fail(key, '%s is %r, the manifest declares %r' % (what, got, want), extra=self.extra())

        def expect(I, r):
            ex = self.extra()
            if r.variant != 'Ok':
                I.fail('rejected', 'a well-formed manifest is rejected: %r' % LL_msg(r), extra=ex)
            ld = Loaded(self.L, r.fields[0])
            if len(ld.builds) != 2:
                I.fail('step-count', 'the manifest declares 2 steps, %d loaded' % len(ld.builds), extra=ex)
            b1, b2 = ld.build(0), ld.build(1)
            compare_build(I, b1, want1, ex)
            compare_build(I, b2, want2, ex)
            flag(I, b1['showincludes'], deps == 2, 'attr:deps', 'deps = msvc (parse /showIncludes)')
            flag(I, b1['hide_success'], hide == 1, 'attr:hide_success', 'hide_success')
            flag(I, b1['hide_progress'], hide == 2, 'attr:hide_progress', 'hide_progress')
            for b in (b2,):
                flag(I, b['showincludes'], False, 'attr:deps', 'deps of the second step')
                flag(I, b['hide_success'], False, 'attr:hide_success', 'hide_success of the second step')
                flag(I, b['hide_progress'], False, 'attr:hide_progress', 'hide_progress of the second step')
                if b['rspfile'] is not None:
                    I.fail('attr-presence:rspfile', 'the second step has a response file, none declared', extra=ex)
            g = b1['rspfile']
            if (g is None) != (rsp1 is None):
                I.fail('attr-presence:rspfile', 'response file %s, declared %s' % ('absent' if g is None else 'present', 'absent' if rsp1 is None else 'present'), extra=ex)
            if g is not None:
                bytes_eq(I, g[0], rsp1[0], 'attr:rspfile', 'the response file path differs from the declared one', ex)
                bytes_eq(I, g[1], rsp1[1], 'attr:rspfile_content', 'the response file content differs from the declared one', ex)
            if ld.defaults():
                I.fail('default', 'no default declared, %d loaded' % len(ld.defaults()), extra=ex)
            pools = ld.pools()
            if len(pools) != 1 or show(pools[0][0]) != b'pl' or not (pools[0][1].conc() and pools[0][1].v == 2):
                I.fail('pool', 'pool pl depth 2 declared, loaded %r' % [(show(a), b) for a, b in pools], extra=ex)
            return 'ok'
        return t.bs, {}, expect


def concrete_text(extra, model):
    out = bytearray()
    for v, nm in zip(extra['text'], extra['symnames']):
        out.append(v if v is not None else model.get(nm, 0x61))
    return bytes(out)


def run_family(ctx, out, I, rep, H, name, budget=1200):
    ex = M.explore(I, H, jobs=ctx.jobs, time_budget=budget)
    merge_cov(out.coverage, name, ex)
    finish_exploration(out, ex, name)
    for key, lst in ex.failures.items():
        for desc, model, extra in lst[:2]:
            if model is None or not extra:
                out.add(Violation('M:manifest:' + key, desc[:300] + ' (no model)', replay={}, reproduced=False))
                continue
            text = concrete_text(extra, model)
            incs = extra.get('includes') or {}
            if incs:
                cmd = 'loadinc ' + hexs(text) + ''.join(' %s %s' % (k, hexs(bytes(x if x is not None else 0x61 for x in v))) for k, v in incs.items())
            else:
                cmd = 'load ' + hexs(text)
            ans = rep.ask(cmd)
            out.add(Violation('M:manifest:' + key, '%s; manifest %r -> native: %s' % (desc[:400], text, decode_dump(ans)[:500]),
                              replay={'cmd': cmd, 'text': text.decode('latin1')}, reproduced=True))
    return ex


def decode_dump(ans):
    """make the hex-encoded native dump readable"""
    def unhex(m):
        try:
            return repr(bytes.fromhex(m.group(0)))[1:]
        except ValueError:
            return m.group(0)
    return re.sub(r'\b(?:[0-9a-f]{2}){2,}\b', unhex, ans)


def run(ctx, out):
    I = load_interp(ctx)
    rep = Replayer(ctx.tree)
    run_family(ctx, out, I, rep, BuildLine(I, ctx.tree), 'build statement: roles x order x escapes x separator spelling')
    run_family(ctx, out, I, rep, Attributes(I, ctx.tree), 'attributes: description/depfile/deps/rspfile/pool/hide_* at rule or build level; comments and blank lines between statements')
    VS = ValueSpelling(I, ctx.tree)
    VS.nparts = 3 if ctx.quick() else 4
    run_family(ctx, out, I, rep, VS, 'value spelling: literals, $v/${v}, escapes, continuations (%d parts)' % VS.nparts,
               budget=1200 if ctx.quick() else 4 * 3600)
    rep.close()
    cov = out.coverage
    cov.update({
        'explanation': 'bounded symbolic execution of the real loader on structured manifests: the abstract statement fixes what must be loaded, '
                       'the spelling (separators, continuations, reference syntax, escapes) and bytes inside names/literals are symbolic; '
                       'per path z3 shows the loaded graph equals the declared one',
        'evaluations': cov.get('paths', 0), 'distinct_nontrivial': cov.get('paths', 0),
        'rule': 'one evaluation = one feasible path class (abstract statement x spelling) closed by the solver',
        'samples': [{'family': k, 'paths': v['paths']} for k, v in cov['harnesses'].items()],
        'bounds': {'build statement': '<=2 explicit + 1 implicit outputs, <=2+1+1+1 inputs', 'value': '3 parts',
                   'attributes': '2 rules, 2 build statements (second: rule or phony), each attribute absent / at rule / at build, one comment or blank-line position of 5'},
        'outside_the_claim': ['statements longer than the families', 'free-form text (totality on arbitrary bytes is C12)',
                              'include/subninja (C11 families)', 'violations are replayed natively for inspection; the oracle is the abstract manifest'],
    })
    out.assumptions += ['std models listed; the abstract-side evaluator in checks/manifestlib.py is the meaning of the Ninja syntax']


def replay(ctx, cex):
    rep = Replayer(ctx.tree)
    ans = rep.ask(cex['replay']['cmd'])
    print('native load: ' + decode_dump(ans)[:600])
    print('REPRODUCED (compare with the declared graph in the violation text)')
    return 1
