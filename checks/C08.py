"""C08 - log records follow steps by output name across manifest edits.

Engine M on the real MIR of db.rs.  Records are written under manifest G1 and loaded under manifest G2 over the same
file names, where WHICH STEP PRODUCES WHICH FILE is chosen independently (symbolically) in G1 and in G2 (including "no
producer"), file numbering is reversed in G2, hashes are symbolic 64-bit values and a step may be recorded twice.
Oracle (the property): a record is applied to step b of G2 iff every output named in it is produced by b in G2; the
latest such record wins; hash and discovered dependencies are the written ones.
Width family: one step with n outputs / n discovered dependencies at the field-width boundaries of the record format
is written and loaded again (concrete sizes, real code).  Engine K: the integer codecs of RecordWriter.
"""
import z3

import mirsym as M
from mirsym import Agg, Cell, IntV, Opaque, Ref, usize
from mirsym.build import Layout, World, buildid, fileid, dm_items
from lib.driver import Violation
from lib.kcheck import run_k
from lib.mcheck import Replayer, finish_exploration, load_interp, merge_cov
from checks import dblib
from checks.C07 import DEPSETS

LEVEL = 'model_checking'
NAMES = ['a', 'b', 'c']
PROD = [None, 0, 1]


def mk_world(L, producers, names, extras=('h1', 'h2', 'src')):
    w = World(L)
    for x in extras[:1]:
        w.file(x)
    ids = [w.file(n) for n in names]
    for x in extras[1:]:
        w.file(x)
    for s in range(2):
        outs = [ids[i] for i in range(len(names)) if producers[i] == s]
        w.add_build(outs, explicit=[w.file('src')])
    return w


class Attribution:
    def __init__(self, I, tree, nrec):
        self.L = Layout(tree.path)
        self.nrec = nrec
        self.open = I.fn('open', 'db.rs')
        self.write_build = I.fn('write_build', 'db.rs')
        I.set_overrides(dblib.install(I, self))

    def run_path(self, I):
        L = self.L
        self.disk = dblib.Disk()
        p1 = [PROD[I.choose('g1_%s' % n, 3)] for n in NAMES]
        w1 = mk_world(L, p1, NAMES)
        g1, h1 = w1.graph(), dblib.empty_hashes(L)
        r = I.call_fn(self.open, [M.static_str(b'.n2_db'), Ref(Cell(g1), ()), Ref(Cell(h1), ())])
        if r.variant != 'Ok':
            I.fail('open-fails', 'creating the log fails')
        wr = r.fields[0]
        recs = []
        steps1 = [s for s in range(2) if any(p == s for p in p1)]
        if not steps1:
            return None
        for k in range(self.nrec):
            s = steps1[I.choose('rec%d_step' % k, len(steps1))]
            ds = I.choose('rec%d_deps' % k, 3)
            hsh = I.fresh_int('hash%d' % k, 64)
            b = dm_items(L.get(g1, 'builds'))[s]
            L.set(b, 'discovered_ins', M.vec(fileid(w1.file(d)) for d in DEPSETS[ds]))
            rr = I.call_fn(self.write_build, [Ref(Cell(wr), ()), Ref(Cell(g1), ()), buildid(s), Agg('BuildHash', [hsh])])
            if rr.variant != 'Ok':
                I.fail('write-fails', 'write_build failed')
            recs.append((s, [NAMES[i] for i in range(3) if p1[i] == s], hsh, [d.encode() for d in DEPSETS[ds]]))
        # ---- second manifest: independent producers, reversed numbering
        p2 = [PROD[I.choose('g2_%s' % n, 3)] for n in NAMES]
        w2 = mk_world(L, list(reversed(p2)), list(reversed(NAMES)), extras=('h2', 'src', 'h1'))
        g2, h2 = w2.graph(), dblib.empty_hashes(L)
        r = I.call_fn(self.open, [M.static_str(b'.n2_db'), Ref(Cell(g2), ()), Ref(Cell(h2), ())])
        if r.variant != 'Ok':
            I.fail('open-fails', 'loading the log under the edited manifest fails')
        got_h = dblib.hashes_dict(h2)
        want = {}
        for s, outs, hsh, deps in recs:
            owners = set(p2[NAMES.index(o)] for o in outs)
            if len(owners) == 1 and None not in owners:
                want[owners.pop()] = (hsh, deps, outs)
        for b in range(2):
            bb = dm_items(L.get(g2, 'builds'))[b]
            gdeps = [w2.names[x.fields[0].v] for x in L.get(bb, 'discovered_ins').fields]
            if b in want:
                if b not in got_h:
                    I.fail('record-not-applied', 'a record whose outputs %r all belong to step %d is not applied' % (want[b][2], b))
                I.oblige(I.binop('Eq', got_h[b], want[b][0]), 'wrong-record-applied',
                         'step %d is given another hash than its latest applicable record' % b)
                if gdeps != want[b][1]:
                    I.fail('wrong-deps', 'step %d loaded with deps %r, its latest applicable record has %r' % (b, gdeps, want[b][1]))
            else:
                if b in got_h:
                    I.fail('record-misapplied', 'step %d (outputs now %r) is given a record although none names only its outputs; records: %r'
                           % (b, [NAMES[i] for i in range(3) if p2[i] == b], [(s, o) for s, o, _, _ in recs]))
                if gdeps:
                    I.fail('deps-misapplied', 'step %d is given discovered deps %r of an inapplicable record' % (b, gdeps))
        return {'g1': p1, 'g2': p2, 'records': [(s, o, d) for s, o, _, d in recs], 'applied_to': sorted(want)}


def pstr(p):
    return ''.join('-' if x is None else str(x) for x in p)


def native_attr(rep, model, nrec):
    p1 = [PROD[model.get('g1_%s' % n, 0)] for n in NAMES]
    p2 = [PROD[model.get('g2_%s' % n, 0)] for n in NAMES]
    steps1 = [s for s in range(2) if any(p == s for p in p1)]
    recs = []
    want = {}
    for k in range(nrec):
        s = steps1[model.get('rec%d_step' % k, 0)]
        ds = model.get('rec%d_deps' % k, 0)
        h = model.get('hash%d' % k, 0)
        recs.append('%d:%d:%d' % (s, ds, h))
        outs = [NAMES[i] for i in range(3) if p1[i] == s]
        owners = set(p2[NAMES.index(o)] for o in outs)
        if len(owners) == 1 and None not in owners:
            want[owners.pop()] = (h, '+'.join(DEPSETS[ds]))
    cmd = 'dbattr %s %s %s rev' % (pstr(p1), ','.join(recs), pstr(p2))
    ans = rep.ask(cmd)
    exp = 'ok ' + ''.join('%d:%d:%s;' % (b, want[b][0], want[b][1]) for b in sorted(want))
    return cmd, ans, ans.strip() != exp.strip(), exp


class Wide:
    """one step with nout outputs and ndeps discovered deps: write_build then open on a fresh graph (concrete)"""

    def __init__(self, I, tree, nout, ndeps):
        self.L = Layout(tree.path)
        self.nout, self.ndeps = nout, ndeps
        self.open = I.fn('open', 'db.rs')
        self.write_build = I.fn('write_build', 'db.rs')
        I.set_overrides(dblib.install(I, self))
        I.step_bound = 50000000

    def world(self):
        w = World(self.L)
        outs = [w.file('o%d' % i) for i in range(self.nout)]
        w.add_build(outs, explicit=[w.file('src')])
        return w

    def run_path(self, I):
        L = self.L
        self.disk = dblib.Disk()
        w1 = self.world()
        deps = [w1.file('d%d' % i) for i in range(self.ndeps)]
        g1, h1 = w1.graph(), dblib.empty_hashes(L)
        r = I.call_fn(self.open, [M.static_str(b'.n2_db'), Ref(Cell(g1), ()), Ref(Cell(h1), ())])
        wr = r.fields[0]
        L.set(dm_items(L.get(g1, 'builds'))[0], 'discovered_ins', M.vec(fileid(d) for d in deps))
        hsh = I.fresh_int('hash', 64)
        rr = I.call_fn(self.write_build, [Ref(Cell(wr), ()), Ref(Cell(g1), ()), buildid(0), Agg('BuildHash', [hsh])])
        if rr.variant != 'Ok':
            return 'write refused'
        w2 = self.world()
        g2, h2 = w2.graph(), dblib.empty_hashes(L)
        r = I.call_fn(self.open, [M.static_str(b'.n2_db'), Ref(Cell(g2), ()), Ref(Cell(h2), ())])
        if r.variant != 'Ok':
            I.fail('reload-fails', 'a log holding one record with %d outputs / %d deps cannot be loaded' % (self.nout, self.ndeps))
        got = dblib.hashes_dict(h2)
        nd = len(L.get(dm_items(L.get(g2, 'builds'))[0], 'discovered_ins').fields)
        if 0 not in got:
            I.fail('record-lost', 'record with %d outputs / %d deps is not loaded' % (self.nout, self.ndeps))
        I.oblige(I.binop('Eq', got[0], hsh), 'wrong-hash', 'record with %d outputs / %d deps loaded with another hash' % (self.nout, self.ndeps))
        if nd != self.ndeps:
            I.fail('wrong-dep-count', 'wrote %d discovered deps, loaded %d' % (self.ndeps, nd))
        return 'ok'


_CTX = None


def _wide_one(sz):
    nout, nd = sz
    I2 = load_interp(_CTX)
    H = Wide(I2, _CTX.tree, nout, nd)
    ex = M.explore(I2, H, jobs=1, time_budget=3000)
    ex.all_summaries = None
    return sz, ex


def run(ctx, out):
    I = load_interp(ctx)
    rep = Replayer(ctx.tree)
    cov = out.coverage
    states = trans = validated = 0
    samples = []
    for nrec in ((1, 2) if ctx.quick() else (1, 2, 3)):
        H = Attribution(I, ctx.tree, nrec)
        ex = M.explore(I, H, jobs=ctx.jobs, time_budget=1200 if ctx.quick() else 4 * 3600, keep_summaries=6)
        name = 'attribution: %d record(s) under G1, loaded under an independently chosen G2' % nrec
        merge_cov(cov, name, ex)
        finish_exploration(out, ex, name)
        states += ex.paths
        trans += ex.queries
        for key, lst in ex.failures.items():
            for desc, model, extra in lst[:2]:
                if model is None:
                    out.inconclusive.append('%s: failure without model: %s' % (name, desc))
                    continue
                cmd, ans, bad, exp = native_attr(rep, model, nrec)
                validated += 1
                out.add(Violation('M:attr:' + key, '%s; `%s` -> %s (expected by the property: %s)' % (desc, cmd, ans[:160], exp[:160]),
                                  replay={'cmd': cmd, 'expect': exp, 'native': ans[:300]}, reproduced=bad))
        samples += [s for s in ex.summaries if s][:3]
    # field-width boundaries (concrete sizes through the real code)
    if ctx.quick():
        sizes = [(1, 0), (2, 3), (1, 255), (1, 256), (1, 65535), (1, 65536)]
    else:
        sizes = [(1, 0), (2, 3), (1, 255), (1, 256), (1, 65535), (1, 65536), (1, 65537), (255, 1), (256, 1), (32767, 0), (32768, 0)]
    global _CTX
    _CTX = ctx
    import multiprocessing as mp
    with mp.get_context('fork').Pool(min(len(sizes), ctx.jobs)) as pool:
        results = pool.map(_wide_one, sizes)
    for (nout, nd), ex in results:
        name = 'width: one record with %d outputs and %d discovered deps' % (nout, nd)
        merge_cov(cov, name, ex)
        finish_exploration(out, ex, name)
        states += ex.paths
        trans += ex.queries
        for key, lst in ex.failures.items():
            desc = lst[0][0]
            ans = rep.ask('dbwide %d %d' % (nout, nd))
            validated += 1
            klass = 'deps>65535' if nd > 65535 else ('outs>32767' if nout > 32767 else 'other')
            out.add(Violation('M:width:%s:%s' % (klass, key), '%s -> native: %s' % (desc, ans[:200]),
                              replay={'cmd': 'dbwide %d %d' % (nout, nd), 'native': ans[:300]}, reproduced=not ans.startswith('ok')))
    rep.close()
    ks = run_k(ctx, out, ['db::verif_kani::write_id_roundtrip', 'db::verif_kani::write_id_limit', 'db::verif_kani::write_ints_roundtrip'],
               timeout=600, jobs=3)
    cov.update({
        'states': states, 'transitions': trans, 'traces_validated_against_impl': validated,
        'samples': samples[:8] or [{'note': 'no path closed'}],
        'kani_harnesses': ks,
        'explanation': 'states = path classes of (G1 producer assignment x records x G2 producer assignment) closed by the solver; '
                       'hash equality obligations are over symbolic 64-bit values',
        'bounds': {'files': NAMES, 'steps': 2, 'records': [1, 2] if ctx.quick() else [1, 2, 3], 'width_sizes': sizes},
        'outside_the_claim': ['more than 2 steps / 3 output names', 'path lengths (a 32768-byte name panics by design: "filename too long")',
                              'the 16 777 216th distinct path id (checked only at the integer kernel, engine K)'],
    })
    out.assumptions += ['File/BufReader/OpenOptions modelled as an append-only byte list (checks/dblib.py)', 'Kani/CBMC for the integer codecs']


def replay(ctx, cex):
    rep = Replayer(ctx.tree)
    ans = rep.ask(cex['replay']['cmd'])
    exp = cex['replay'].get('expect')
    bad = (ans.strip() != exp.strip()) if exp else not ans.startswith('ok')
    print(('REPRODUCED: ' if bad else 'NOT-REPRODUCED: ') + ans[:300])
    return 1 if bad else 0
