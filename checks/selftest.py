"""Translator validation for engine M: the repository's own unit-test inputs (plus VERIF_SEED-seeded random concrete
inputs) are pushed through mirsym (concrete values, one path each) and through the natively compiled real code; any
difference means the encoding (MIR interpreter or a std model) is wrong and fails the run as INCONCLUSIVE ("engine
broken"), never as a violation.  Run once per source state (stamp file in the scratch tree) before the M checks."""
import json
import os
import random
import re

import mirsym as M
from mirsym import Agg, Cell, IntV, Ref, SliceRef, usize
from lib.mcheck import Replayer, hexs

CANON = [b'foo', b'foo/bar', b'./foo', b'foo/.', b'foo/./bar', b'./', b'./.', b'././', b'././.', b'.', b't/.hidden',
         b't/.._lib.c.o', b'/foo', b'foo//bar', b'foo/../bar', b'/foo/../bar', b'../foo', b'../foo/../bar', b'../../bar',
         b'./../foo', b'foo/..', b'foo/../', b'foo/../../', b'foo/../../bar', b'foo\\bar', b'.\\foo', b'foo\\..\\bar',
         b'a/b/../../c', b'a//b/./c/..', 'caf\u00e9/./x'.encode()]
DEPFILES = [b'build/browse.o: src/browse.cc src/browse.h build/browse_py.h\n', b'build/browse.o: src/browse.cc   \n',
            b'build/browse.o: src/browse.cc\\\n  build/browse_py.h', b'build/browse.o: src/browse.cc',
            b'build/browse.o   : src/browse.cc', b'odd/path.o: C:/odd\\path.c',
            b'\nout/a.o: src/a.c \\\n  src/b.c\n\nout/b.o :\n', b'foo bar', b'a: \\x', b'out: h1\nout:\n', b'\\\n\n', b'a: x\nb: y\na: z\n', b': \na: a\n: :']
MANIFESTS = [b'var = 3\ndefault a b$var c\n', b'x = $y.z\n', b'rule x.y\n  command = x\n', b'build$\n foo$\n : $\n  touch $\n\n',
             b'rule cc\n  command = gcc $in -o $out\n  description = CC $out\nbuild a.o | b: cc a.c | h || o |@ v\n  pool = console\ndefault a.o\npool p\n  depth = 3\nbuilddir = out\n',
             b'build a: phony b\nbuild b: phony c\nbuild c: phony a\n', b'rule r\n  command = c\nbuild dup dup: r\n',
             b'x = 1\nrule r\n  command = $x $y $in\nbuild o$x: r i\n  y = $x!\n  x = 2\nx = 3\nbuild p: r q\n',
             b'rule r\n command = x', b'build a: nope\n', b'  bad\n', b'pool p\n  depth = x\n']
TASKMSG = [(b'building foo.o', 0, 80), (b'building foo.o', 0, 10), (b'building foo.o', 0, 5), (b'building foo.o', 5, 80),
           (b'building foo.o', 5, 10), ('utf8 \u2501\u2501\u2501\u2501 bar'.encode(), 1234, 12)]
BARS = [(0, 0, 0, 0, 0, 0), (100, 0, 0, 0, 0, 0), (50, 50, 0, 0, 0, 0), (50, 49, 0, 0, 1, 0), (1, 98, 0, 0, 1, 0), (0, 99, 0, 0, 1, 0),
        (3, 1, 1, 1, 7, 2)]
SHOWINC = [b'some text\nNote: including file: a\nother text\nNote: including file:    b\r\nmore text\n', b'\nfoo\n', b'Note: including file: x']


def _str(bs):
    return bytes(b.v for b in bs)


def run(tree, seed=0):
    """returns list of mismatch descriptions (empty = engine and implementation agree on the corpus)"""
    I = M.load(tree)
    rep = Replayer(tree)
    rnd = random.Random(seed)
    bad = []
    n = 0
    # ---- canon
    canon = I.fn('canonicalize_path', 'canon.rs')
    corpus = list(CANON)
    for _ in range(20):
        corpus.append(bytes(rnd.choice(b'ab./\\') for _ in range(rnd.randint(1, 9))))
    for p in corpus:
        I.start_path([])
        s = M.string(p)
        try:
            I.call_fn(canon, [Ref(Cell(s), ())])
            got = 'ok ' + _str(s.fields[0].fields).hex()
        except M.PathEnd:
            got = 'PANIC'
        nat = rep.ask('canon ' + hexs(p))
        n += 1
        if got.split(' ')[0] != nat.split(' ')[0] or (got.startswith('ok') and got != nat.strip()):
            bad.append('canonicalize_path(%r): M %s, native %s' % (p, got, nat[:80]))
    # ---- depfile
    from checks import C15
    H = C15.Harness(I, 0, None)
    for d in DEPFILES + [bytes(rnd.choice(b'a: \\\n') for _ in range(rnd.randint(1, 10))) for _ in range(20)]:
        I.start_path([])
        H.bytes = [IntV(8, c) for c in d] + [IntV(8, 0)]
        try:
            r = I.call_fn(H.impl, [M.static_str(b'dep.d')])
            got = ('ok', ','.join(_str(x.fields[0].fields).hex() for x in r.fields[0].fields)) if r.variant == 'Ok' else ('err', '')
        except M.PathEnd:
            got = ('PANIC', '')
        nat = C15.classify(rep.ask('depfile ' + hexs(d)))
        n += 1
        if nat is None:
            if got[0] != 'PANIC':
                bad.append('read_depfile(%r): M %r, native did not complete' % (d, got))
        elif (got[0] == 'ok') != nat[0] or (got[0] == 'ok' and got[1] != nat[1]):
            bad.append('read_depfile(%r): M %r, native %r' % (d, got, nat[:2]))
    # ---- loader
    from checks import loaderlib as LL
    from checks.manifestlib import Loaded
    from mirsym.build import Layout
    L = Layout(tree.path)

    class Dummy:
        pass
    LL.install_loader_env(I, Dummy())
    I.overrides.append((re.compile(r'^std::io::_print$|^_print$'), lambda I, a, c: M.UNIT))
    I._resolve_cache = {}
    entry = I.fn('verif_load', 'load.rs')
    for t in MANIFESTS:
        I.start_path([])
        try:
            r = I.call_fn(entry, [LL.buf_ref([IntV(8, c) for c in t] + [IntV(8, 0)])])
            if r.variant == 'Ok':
                ld = Loaded(L, r.fields[0])
                got = 'ok ' + ';'.join('%s|%s|%s' % (','.join(_str(x).hex() for x in ld.build(i)['explicit_outs'] + ld.build(i)['implicit_outs']),
                                                      ','.join(_str(x).hex() for k in ('explicit_ins', 'implicit_ins', 'order_only_ins', 'validation_ins') for x in ld.build(i)[k]),
                                                      '-' if ld.build(i)['cmdline'] is None else _str(ld.build(i)['cmdline']).hex())
                                       for i in range(len(ld.builds)))
            else:
                got = 'err ' + LL.msg_bytes(r.fields[0]).hex()
        except M.PathEnd:
            got = 'PANIC'
        nat = rep.ask('load ' + hexs(t))
        n += 1
        if nat.startswith('ok'):
            blds = re.findall(r'build line=\d+ outs=\[([^\]]*)\] ins=\[([^\]]*)\] cmd(\S*)', nat)
            natn = 'ok ' + ';'.join('%s|%s|%s' % (o.replace('|', ',').strip(','), re.sub(r',+', ',', i.replace('|', ',')).strip(','), c[1:] if c.startswith('=') else '-')
                                    for o, i, c in blds)
            if got != natn:
                bad.append('load(%r): M %s, native %s' % (t, got[:200], natn[:200]))
        elif nat.startswith('err'):
            if not got.startswith('err') or got.split(' ')[1] != nat.split(' ')[1].split(' ')[0]:
                bad.append('load(%r): M %s, native %s' % (t, got[:160], nat[:160]))
        else:
            if got != 'PANIC':
                bad.append('load(%r): M %s, native %s' % (t, got[:160], nat[:160]))
    # ---- task_message / progress_bar / showincludes
    I.set_overrides([])
    tm = I.fn('task_message', 'progress_fancy.rs')
    for msg, secs, cols in TASKMSG:
        I.start_path([])
        try:
            r = I.call_fn(tm, [M.static_str(msg), usize(secs), usize(cols)])
            got = 'ok %d' % len(r.fields[0].fields)
        except M.PathEnd:
            got = 'PANIC'
        nat = rep.ask('taskmsg %s %d %d' % (hexs(msg), secs, cols))
        n += 1
        if got.split(' ')[0] != nat.split(' ')[0] or (got.startswith('ok') and nat.startswith('ok') and got.split()[1] != nat.split()[1]):
            bad.append('task_message(%r, %d, %d): M %s, native %s' % (msg, secs, cols, got, nat[:80]))
    pb = I.fn('progress_bar', 'progress_fancy.rs')
    for c in BARS:
        I.start_path([])
        counts = Agg('StateCounts', [Agg('array', [usize(x) for x in c])])
        try:
            r = I.call_fn(pb, [Ref(Cell(counts), ()), usize(40)])
            got = 'ok ' + _str(r.fields[0].fields).decode()
        except M.PathEnd:
            got = 'PANIC'
        nat = rep.ask('bar ' + ' '.join(str(x) for x in c))
        n += 1
        if got.strip() != nat.strip():
            bad.append('progress_bar(%r): M %r, native %r' % (c, got, nat[:80]))
    rep.close()
    return n, bad


def ensure(ctx):
    """run the validation once per scratch tree; returns a reason string if the engine disagrees with the implementation"""
    import glob
    import hashlib
    h = hashlib.sha256()
    here = os.path.dirname(os.path.abspath(__file__))
    for fn in sorted(glob.glob(os.path.join(here, '..', 'mirsym', '*.py'))) + [os.path.abspath(__file__), os.path.join(here, 'C15.py'), os.path.join(here, 'loaderlib.py')]:
        h.update(open(fn, 'rb').read())
    # one validation per (source state, engine state): a changed model or interpreter is validated again
    stamp = os.path.join(ctx.tree.path, '.selftest.%s.%d.json' % (h.hexdigest()[:12], ctx.seed))
    if os.path.exists(stamp):
        d = json.load(open(stamp))
    else:
        try:
            n, bad = run(ctx.tree, ctx.seed)
            d = {'cases': n, 'mismatches': bad}
        except M.Unsupported as e:
            d = {'cases': 0, 'mismatches': ['translator validation could not run: %s' % str(e)[:300]]}
        json.dump(d, open(stamp, 'w'))
    return d
