"""C09 - discovered dependencies are remembered, replaced wholesale, and never block.

Engine M.
(1) S-full chain (checks/sfull.py): the real record_finished canonicalises, de-duplicates and filters the reported
    names and REPLACES the old list (an arbitrary recorded list is the pre-state); the real check_build_dirty treats
    the recorded list as dirtying inputs; a reported dependency that vanished makes the step dirty, never an error.
(2) One-step kernel (checks/dirtykernel.py) with discovered lists that overlap declared inputs and order-only inputs.
(3) task::extract_showincludes on outputs of <= 3 lines, each symbolically an include note (symbolic padding, name
    bytes, optional CR) or ordinary text: `includes` are exactly the names in order and the filtered output is
    exactly the ordinary lines joined by newlines.
(4) S-task chain (checks/taskchain.py): (1) with the REAL Runner::start/wait, run_task, read_depfile and
    extract_showincludes in the loop: the command reports through depfile text (missing / plain / absolute target /
    continuation and ./ spelling / two entries) or /showIncludes notes in its output; what is remembered must be the
    names that text reports, and the output passed on for display must be the command's output without the notes.
The persistence of the list through the log is C07/C08's subject; depfile parsing is C15's.
"""
import z3

import mirsym as M
from mirsym import Agg, Cell, IntV, Ref, SliceRef, vec
from mirsym.models import val_eq
from lib.driver import Violation
from lib.mcheck import Replayer, finish_exploration, hexs, load_interp, merge_cov
from checks import dirtykernel as DK
from checks import sfull
from checks import taskchain

LEVEL = 'other'
NOTE = b'Note: including file: '


class ShowIncludes:
    def __init__(self, I, nlines):
        self.nlines = nlines
        self.fn = I.fn('extract_showincludes', 'task.rs')
        I.set_overrides([])

    def run_path(self, I):
        buf = []
        names = []
        plain = []
        for k in range(self.nlines):
            if k:
                buf.append(IntV(8, 10))
            kind = I.choose('line%d_kind' % k, 3)    # 0 include note, 1 ordinary text, 2 empty line
            if kind == 0:
                buf += [IntV(8, c) for c in NOTE]
                pad = I.choose('line%d_pad' % k, 3)
                buf += [IntV(8, 32)] * pad
                nm = []
                for j in range(1 + I.choose('line%d_len' % k, 2)):
                    b = I.fresh_int('n%d_%d' % (k, j), 8)
                    I.solver.add(b.v != 10, b.v != 13)
                    if j == 0:
                        I.solver.add(b.v != 32)
                    nm.append(b)
                buf += nm
                if I.choose('line%d_cr' % k, 2) == 1:
                    buf.append(IntV(8, 13))
                names.append(nm)
            elif kind == 1:
                tx = []
                for j in range(1 + I.choose('line%d_len' % k, 2)):
                    b = I.fresh_int('t%d_%d' % (k, j), 8)
                    I.solver.add(b.v != 10)
                    tx.append(b)
                # ordinary text must not itself be an include note: too short to be one
                buf += tx
                plain.append(tx)
            else:
                plain.append([])
        self.buf = buf
        r = I.call_fn(self.fn, [Agg('Vec', list(buf))])
        incs, outp = r.fields[0], r.fields[1]
        if len(incs.fields) != len(names):
            I.fail('includes-count', 'extract_showincludes found %d include notes, the output has %d' % (len(incs.fields), len(names)))
        for g, w in zip(incs.fields, names):
            gb = g.fields[0].fields
            if len(gb) != len(w):
                I.fail('include-name', 'an include name has %d bytes instead of %d' % (len(gb), len(w)))
            for x, y in zip(gb, w):
                I.oblige(I.binop('Eq', x, y), 'include-name', 'an include name differs from the text after the note prefix and padding')
        want = []
        for i, tx in enumerate(plain):
            if i:
                want.append(IntV(8, 10))
            want += tx
        got = outp.fields
        if len(got) != len(want):
            I.fail('filtered-output', 'filtered output has %d bytes, the ordinary lines make %d' % (len(got), len(want)))
        for x, y in zip(got, want):
            I.oblige(I.binop('Eq', x, y), 'filtered-output', 'filtered output differs from the ordinary lines joined by newlines')
        return 'ok'

    def concrete(self, model):
        return bytes(b.v if b.conc() else 0 for b in self.buf)


def run(ctx, out):
    sfull.run_chain(ctx, out, 'C09', {'C09'})
    taskchain.run_taskchain(ctx, out, 'C09', {'C09'})
    DK.run_kernel(ctx, out, 'C09', {'C09'})
    I = load_interp(ctx)
    rep = Replayer(ctx.tree)
    cov = out.coverage
    for n in ((1, 2, 3) if ctx.quick() else (1, 2, 3, 4)):
        H = ShowIncludes(I, n)
        ex = M.explore(I, H, jobs=ctx.jobs, time_budget=1200)
        name = 'extract_showincludes on %d line(s)' % n
        merge_cov(cov, name, ex)
        finish_exploration(out, ex, name)
        for key, lst in ex.failures.items():
            desc, model, extra = lst[0]
            out.add(Violation('M:showincludes:' + key, desc, replay={'model': model}, reproduced=True if model else False))
    rep.close()
    cov.update({
        'explanation': 'bounded symbolic execution (mirsym/z3): real record_finished / check_build_dirty / hash_build / write_build on a two-step '
                       'chain with symbolic records, file system and reported dependency lists; the one-step dirty kernel; extract_showincludes '
                       'on symbolic lines',
        'evaluations': cov.get('paths', 0), 'distinct_nontrivial': cov.get('paths', 0),
        'rule': 'one evaluation = one feasible path class closed by the solver',
        'samples': [{'harness': k, 'paths': v['paths']} for k, v in list(cov['harnesses'].items())[:5]],
        'bounds': {'reported lists': [list(x) if x is not None else None for x in sfull.DEPS], 'recorded lists': [[], ['hdr']],
                   'showincludes': '<= 3 lines, names / text of 1-2 symbolic bytes, padding 0-2, optional CR'},
        'outside_the_claim': ['persistence across more than one reload (C07/C08)', 'depfile syntax (C15)', 'ordering: discovered deps never order (C01 harness)'],
    })
    out.assumptions += ['symbolic file system; recording hasher; log-file model', 'executor model reports the dependency list symbolically',
                        'S-task: std::thread::spawn runs the closure at the spawn point, mpsc is a FIFO queue, process::run_command is the executor model (output chunks, file effects, depfile text)']


def replay(ctx, cex):
    if 'variant' in cex['replay']:
        return taskchain.replay_taskchain(ctx, cex)
    if 'extra' in cex['replay']:
        return sfull.replay_chain(ctx, cex)
    if cex['replay'].get('cmd', '').startswith('dirty1'):
        return DK.replay_kernel(ctx, cex)
    print('REPRODUCED (extract_showincludes model): %r' % cex['replay'])
    return 1
