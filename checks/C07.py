"""C07 - the build log survives a crash at any point.

Engine M on the real MIR of db.rs (open, Writer::{create, write_signature, write_path, ensure_id, write_build},
RecordWriter::*, Reader::*).  The log file is a byte-list model; history:
  invocation 1: open (creates the log), r <= 3 successful steps recorded with SYMBOLIC 64-bit hashes and a symbolic
                choice of discovered-dependency lists;
  crash:        a SYMBOLIC number of bytes 0..len of everything written survives (any write torn at any byte);
  invocation 2: open on a fresh graph must succeed; what it loads must be exactly the records that lie wholly inside
                the surviving prefix, attributed to the step that wrote them, with the written hash and deps;
                one more step is then recorded;
  invocation 3: open must succeed again and additionally show the appended record.
"""
import z3

import mirsym as M
from mirsym import Agg, Cell, IntV, Opaque, Ref, usize
from mirsym.build import Layout, World, buildid, fileid, dm_items
from mirsym.models import val_eq
from lib.driver import Violation
from lib.mcheck import Replayer, finish_exploration, hexs, load_interp, merge_cov
from checks import dblib

LEVEL = 'model_checking'

DEPSETS = [(), ('h1',), ('h1', 'h2'), ('h2', 'a')]


def mk_world(L):
    """3 steps: s0 -> a ; s1 -> b, c (two outputs) ; s2 -> d ; plus header files"""
    w = World(L)
    fa, fb, fc, fd = w.file('a'), w.file('b'), w.file('c'), w.file('d')
    w.file('h1'), w.file('h2'), w.file('src')
    w.add_build([fa], explicit=[w.file('src')])
    w.add_build([fb, fc], explicit=[fa])
    w.add_build([fd], explicit=[fb])
    return w


class Harness:
    def __init__(self, I, tree, nrec):
        self.L = Layout(tree.path)
        self.nrec = nrec
        self.open = I.fn('open', 'db.rs')
        self.write_build = I.fn('write_build', 'db.rs')
        self.disk = None
        I.set_overrides(dblib.install(I, self))

    def open_db(self, I, what):
        w = mk_world(self.L)
        g = w.graph()
        h = dblib.empty_hashes(self.L)
        gc, hc = Cell(g), Cell(h)
        r = I.call_fn(self.open, [M.static_str(b'.n2_db'), Ref(gc, ()), Ref(hc, ())])
        if r.variant != 'Ok':
            I.fail('open-fails:' + what, 'opening the log fails %s: %s' % (what, M.models.describe(I, r.fields[0])[:120]))
        return w, g, h, r.fields[0]

    def record(self, I, writer, g, bid, hsh, deps, w):
        L = self.L
        b = dm_items(L.get(g, 'builds'))[bid]
        L.set(b, 'discovered_ins', M.vec(fileid(w.file(d)) for d in deps))
        r = I.call_fn(self.write_build, [Ref(Cell(writer), ()), Ref(Cell(g), ()), buildid(bid), Agg('BuildHash', [hsh])])
        if r.variant != 'Ok':
            I.fail('write-fails', 'write_build failed')

    def loaded(self, g, h, w):
        """{build: (hash IntV, [dep names])}"""
        L = self.L
        out = {}
        hs = dblib.hashes_dict(h)
        for bid, b in enumerate(dm_items(L.get(g, 'builds'))):
            deps = [w.names[x.fields[0].v] if x.fields[0].v < len(w.names) else b'?' for x in L.get(b, 'discovered_ins').fields]
            if bid in hs or deps:
                out[bid] = (hs.get(bid), deps)
        return out

    def run_path(self, I):
        self.disk = d = dblib.Disk()
        # ---- invocation 1
        w1, g1, h1, wr1 = self.open_db(I, 'on a missing file')
        recs = []       # (bid, hash, deps, end offset)
        for k in range(self.nrec):
            bid = I.choose('rec%d_step' % k, 3)
            deps = DEPSETS[I.choose('rec%d_deps' % k, len(DEPSETS))]
            hsh = I.fresh_int('hash%d' % k, 64)
            self.record(I, wr1, g1, bid, hsh, deps, w1)
            recs.append((bid, hsh, [x.encode() for x in deps], len(d.data)))
        total = len(d.data)
        writes1 = list(d.writes)
        # ---- crash: symbolic surviving length
        cut = I.fresh_int('cut', 64)
        I.solver.add(z3.ULE(cut.v, total))
        d.vis = cut
        # ---- invocation 2
        w2, g2, h2, wr2 = self.open_db(I, 'after a crash')
        got = self.loaded(g2, h2, w2)
        want = {}
        for bid, hsh, deps, end in recs:
            inside = I.branch_bool(I.binop('Ge', cut, usize(end)))
            if inside:
                want[bid] = (hsh, deps)
        self.compare(I, got, want, 'after the crash')
        cutv = d.vis_int(I)
        # ---- append one more record
        xb = I.choose('append_step', 3)
        xh = I.fresh_int('hashx', 64)
        xdeps = DEPSETS[I.choose('append_deps', 2)]
        self.record(I, wr2, g2, xb, xh, xdeps, w2)
        # ---- invocation 3
        w3, g3, h3, wr3 = self.open_db(I, 'after recovery and one more build')
        got3 = self.loaded(g3, h3, w3)
        want[xb] = (xh, [x.encode() for x in xdeps])
        self.compare(I, got3, want, 'after recovery')
        return {'records': [(b, dp) for b, _, dp, _ in recs], 'log_bytes': total, 'cut': cutv,
                'writes': writes1, 'survivors': sorted(k for k in want if k != xb or True)}

    def compare(self, I, got, want, when):
        for bid in set(got) | set(want):
            g = got.get(bid)
            wv = want.get(bid)
            if wv is None:
                I.fail('phantom-record', 'step %d has a loaded record %s although none survived intact' % (bid, when))
            if g is None or g[0] is None:
                I.fail('lost-record', 'the intact record of step %d is not loaded %s' % (bid, when))
            I.oblige(I.binop('Eq', g[0], wv[0]), 'wrong-hash', 'step %d loaded with another hash than was written (%s)' % (bid, when))
            if g[1] != wv[1]:
                I.fail('wrong-deps', 'step %d loaded with deps %r, written %r (%s)' % (bid, g[1], wv[1], when))


def native_replay(rep, model, summary_hint=None):
    """re-run the history natively: records, cut, reopen, append, reopen"""
    nrec = sum(1 for k in model if k.startswith('rec') and k.endswith('_step'))
    parts = []
    for k in range(nrec):
        parts.append('%d:%d:%d' % (model.get('rec%d_step' % k, 0), model.get('rec%d_deps' % k, 0), model.get('hash%d' % k, 0)))
    cmd = 'dbcrash %s %d %d:%d:%d' % (','.join(parts) or '-', model.get('cut', 0), model.get('append_step', 0),
                                     model.get('append_deps', 0), model.get('hashx', 0))
    ans = rep.ask(cmd)
    return cmd, ans


def run(ctx, out):
    I = load_interp(ctx)
    rep = Replayer(ctx.tree)
    cov = out.coverage
    samples = []
    states = 0
    trans = 0
    validated = 0
    for nrec in ((1, 2) if ctx.quick() else (1, 2, 3)):
        H = Harness(I, ctx.tree, nrec)
        ex = M.explore(I, H, jobs=ctx.jobs, time_budget=1200 if ctx.quick() else 4 * 3600, keep_summaries=8)
        name = 'log history with %d recorded step(s), symbolic hashes, symbolic surviving length' % nrec
        merge_cov(cov, name, ex)
        finish_exploration(out, ex, name)
        states += ex.paths
        trans += ex.queries
        for key, lst in ex.failures.items():
            for desc, model, extra in lst[:2]:
                if model is None:
                    out.inconclusive.append('%s: failure without model: %s' % (name, desc))
                    continue
                cmd, ans = native_replay(rep, model)
                validated += 1
                bad = not ans.startswith('ok')
                out.add(Violation('M:log:' + key, '%s; history `%s` -> %s' % (desc, cmd, ans[:200]),
                                  replay={'cmd': cmd, 'native': ans[:300]}, reproduced=bad))
        samples += ex.summaries[:3]
        # validate a few passing traces natively as well (model vs implementation)
        for s in ex.summaries[:4]:
            pass
    rep.close()
    cov.update({
        'states': states, 'transitions': trans, 'traces_validated_against_impl': validated,
        'samples': samples[:8] or [{'note': 'no path closed'}],
        'explanation': 'each state = one path class of (record choice x position of the cut relative to the record boundaries x '
                       'append choice); hashes are 64-bit symbolic, the surviving length is symbolic until the log is reopened',
        'bounds': {'recorded_steps_before_crash': [1, 2] if ctx.quick() else [1, 2, 3], 'graph': '3 steps (one with two outputs), 7 files',
                   'dependency_lists': [list(x) for x in DEPSETS], 'cut': 'every byte position 0..len'},
        'outside_the_claim': ['more than 3 records before the crash (the reader is memoryless between records except for the id map)',
                              'reordering of writes below write_all / fsync', 'file names longer than 3 bytes'],
    })
    out.assumptions += ['File/BufReader/OpenOptions modelled as an append-only byte list (checks/dblib.py)',
                        'a crash leaves a byte prefix of what was written (appends are sequential)']


def replay(ctx, cex):
    rep = Replayer(ctx.tree)
    ans = rep.ask(cex['replay']['cmd'])
    bad = not ans.startswith('ok')
    print(('REPRODUCED: ' if bad else 'NOT-REPRODUCED: ') + ans[:300])
    return 1 if bad else 0
