"""S-task chain harness (engine M): the S-full chain of checks/sfull.py with the REAL command runner in the loop.

Real MIR in addition to sfull's: task::Runner::{new,start,wait,can_start_more,is_running}, the closure handed to
std::thread::spawn, task::run_task and its output closure, task::read_depfile, depfile::parse, task::extract_showincludes,
task::find_last_line, task::write_rspfile, ThreadIds::{claim,release}.
Environment models (each part of the claim): std::thread::spawn runs the closure to completion at the spawn point
(one of the schedules; -j1 here, so the only one that matters), std::sync::mpsc is a FIFO queue, Instant::now is opaque,
process::run_command(cmdline, cb) is the EXECUTOR MODEL: it hands the command's output to the callback in chunks,
applies the command's effects to the symbolic file system (fresh output mtime, optionally consumes its input, writes
the depfile text of the chosen variant) and returns Success or Failure (symbolic choice);
scanner::read_file_with_nul serves the depfile written by the executor model.

What the command "reports" is therefore TEXT (a depfile in one of several spellings: missing, plain, absolute target,
continuation + ./ spelling, two entries; or /showIncludes notes in its output), and the oracle of sfull (which steps
run, what is remembered afterwards) is evaluated against the names that text reports.  Additionally the output handed
to Progress::task_finished must be the command's output without the /showIncludes notes.
"""
import z3

import mirsym as M
from mirsym import Agg, BoolV, Cell, IntV, Opaque, Ref, UNIT, err, none, ok, some, usize, vec, string
from mirsym.models import as_slice, conc_bytes, elems
from checks import dirtylib as D
from checks import dblib
from checks import loaderlib as LL
from checks import sfull

# (mode, depfile text | None = the command writes none, command output chunks, names reported (None = no report at all))
VARIANTS = [
    ('depfile', None, [b''], ()),
    ('depfile', b'mid: hdr\n', [b'warn', b'ing\n'], ('hdr',)),
    ('depfile', b'/abs/dir/mid: hdr src\n', [], ('hdr', 'src')),
    ('depfile', b'mid: ./hdr \\\n  hdr\n', [], ('./hdr', 'hdr')),
    ('depfile', b'mid: hdr\nmid.x: src\n', [], ('hdr', 'src')),
    ('showinc', None, [b'Note: including file: hdr\nhel', b'lo\n'], ('hdr',)),
    ('showinc', None, [b'x\nNote: including file:   ./hdr\r\nNote: including file: hdr\n'], ('./hdr', 'hdr')),
    ('none', None, [b'out\n'], None),
]
NOTE = b'Note: including file: '


def shown_output(mode, chunks):
    """what the user must be shown: every byte of the output; under deps = msvc, minus the include notes"""
    data = b''.join(chunks)
    if mode != 'showinc':
        return data
    return b'\n'.join(l for l in data.split(b'\n') if not l.startswith(NOTE))


class TaskChain(sfull.Chain):
    def world(self, rec_deps):
        from mirsym.build import World
        mode = self.variant[0]
        w = World(self.L)
        f = {n: w.file(n) for n in sfull.NAMES}
        w.add_build([f['mid']], explicit=[f['src']], order_only=[f['oo']], cmdline=b'A', discovered=[f[d] for d in rec_deps],
                    depfile=b'mid.d' if mode == 'depfile' else None, showincludes=(mode == 'showinc'))
        w.add_build([f['out']], explicit=[f['mid']], cmdline=b'B')
        return w, f

    def install(self, I):
        H = self

        def m_spawn(I, args, callee):
            I.call_closure(args[0], [])
            return Opaque('JoinHandle')

        def m_channel(I, args, callee):
            return Agg('tuple', [Opaque('Sender'), Opaque('Receiver')])

        def m_send(I, args, callee):
            H.queue.append(args[1])
            return ok(UNIT)

        def m_recv(I, args, callee):
            if not H.queue:
                # every sender is alive (Runner holds one): a real recv would block for ever
                I.fail('runner-wait-without-task', 'Runner::wait blocks: no command is running and nothing was sent', extra=H.extra_now())
            return ok(H.queue.pop(0))

        def m_run_command(I, args, callee):
            cmd = conc_bytes(I, as_slice(I, args[0]))
            if cmd not in (b'A', b'B'):
                I.fail('command-text', 'the command handed to the shell is %r, the step says A / B' % (cmd,), extra=H.extra_now())
            b = 0 if cmd == b'A' else 1
            H.events.append(('start', b))
            okk = I.choose('ok%d' % b, 2) == 1
            mode, deptext, chunks, reported = H.variant if b == 0 else ('none', None, [b'B says hi\n'], None)
            for ch in chunks:
                I.call_closure(args[1], [LL.buf_ref([IntV(8, c) for c in ch])])
            if okk:
                outname = b'mid' if b == 0 else b'out'
                H.fs.fresh(I, outname.decode(), 'new', can_miss=False)
                H.fs.files[outname] = H.fs.files.pop(outname.decode())
                I.solver.add(z3.ULT(H.fs.files[outname][1].v, 1 << 31))
                if b == 0:
                    if I.choose('consume_input', 2) == 1:
                        ent = H.fs.files[b'src']
                        H.fs.files[b'src'] = (BoolV(True), ent[1], ent[2])
                        H.consumed = True
                    H.reported = reported
                    H.depfile_on_disk = deptext
            H.events.append(('fin', b, okk))
            return ok(Agg('Termination', [], 'Success' if okk else 'Failure'))

        def m_read_file(I, args, callee):
            name = conc_bytes(I, as_slice(I, args[0]))
            H.reads.append(name)
            if name == b'mid.d' and H.depfile_on_disk is not None:
                return ok(Agg('Vec', [IntV(8, c) for c in H.depfile_on_disk] + [IntV(8, 0)]))
            return err(Opaque('io::Error', ('NotFound',)))

        def m_err_kind(I, args, callee):
            e = I.deref(args[0])
            return Agg('ErrorKind', [], e.parts[0])

        def h_task_finished(I, args, callee):
            bid = args[1].fields[0].v
            res = I.deref(args[3])
            outp = self.L.get(res, 'output')
            got = conc_bytes(I, as_slice(I, outp)) if not isinstance(outp, Agg) else bytes(x.v for x in outp.fields)
            mode, _, chunks, _ = H.variant if bid == 0 else ('none', None, [b'B says hi\n'], None)
            want = shown_output(mode, chunks)
            H.shown.append((bid, got))
            if 'C09' in H.groups and got != want:
                I.fail('shown-output', 'the output passed on for display after step %s is %r, the command wrote %r (deps mode %s), expected %r' % (
                    'AB'[bid], got, b''.join(chunks), mode, want), extra=H.extra_now())
            return UNIT

        I.hooks['dyn:update'] = lambda I, a, c: UNIT
        for nm in ('task_started', 'task_output', 'log'):
            I.hooks['dyn:' + nm] = lambda I, a, c: UNIT
        I.hooks['dyn:task_finished'] = h_task_finished
        I.add_enum('ErrorKind', ['NotFound', 'PermissionDenied', 'UnexpectedEof', 'Other'])
        ovr = [
            (r'(^|::)register_sigint$', lambda I, a, c: UNIT),
            (r'(^|::)was_interrupted$', lambda I, a, c: BoolV(False)),
            (r'^enabled$|trace::enabled$', lambda I, a, c: BoolV(False)),
            (r'(^|::)verif_active$|(^|::)verif_cut$', lambda I, a, c: BoolV(False)),
            (r'(^|::)Work::<.*>::create_parent_dirs$', lambda I, a, c: ok(UNIT)),
            (r'^(std::thread::)?spawn::<', m_spawn),
            (r'(^|::)mpsc::channel::<', m_channel),
            (r'(^|::)Sender::<.*>::send$', m_send),
            (r'(^|::)Receiver::<.*>::recv$', m_recv),
            (r'^<(std::sync::mpsc::)?Sender<.*> as Clone>::clone$', lambda I, a, c: Opaque('Sender')),
            (r'(^|::)Instant::now$', lambda I, a, c: Opaque('Instant')),
            (r'(^|::)run_command::<', m_run_command),
            (r'read_file_with_nul$', m_read_file),
            (r'^std::io::Error::kind$', m_err_kind),
        ]
        I.set_overrides(ovr + D.hasher_models(self) + D.fs_models(self) + dblib.install(I, self))

    def extra_now(self):
        return {'events': list(self.events), 'variant': VARIANTS.index(self.variant), 'reported': self.reported, 'consumed': self.consumed,
                'rec_deps': [], 'have': [False, False]}

    def run_path(self, I):
        self.variant = VARIANTS[I.choose('variant', len(VARIANTS))]
        self.queue = []
        self.reads = []
        self.shown = []
        self.depfile_on_disk = None
        vi = VARIANTS.index(self.variant)
        try:
            r = super().run_path(I)
        except M.PathEnd:
            raise
        return 'v%d:%s' % (vi, r)


# ---------------------------------------------------------------------------------------------------- native confirmation
def native_probe(tree, rec_deps, vi, want_hdr=None):
    """end to end with the n2 binary: build once with a depfile listing rec_deps, rebuild with the command behaving as
    variant vi, then touch hdr: does A run again?  Also returns what n2 printed for the second build."""
    import os
    import shutil
    import subprocess
    import tempfile
    n2 = tree.n2_bin()
    mode, deptext, chunks, reported = VARIANTS[vi]
    d = tempfile.mkdtemp(prefix='n2verif-task-')
    try:
        def sh(cmd):
            return subprocess.run(cmd, shell=True, cwd=d, stdout=subprocess.PIPE, stderr=subprocess.STDOUT, timeout=60)
        attrs = {'depfile': '  depfile = mid.d\n', 'showinc': '  deps = msvc\n', 'none': ''}[mode]
        first = '  depfile = mid.d\n'
        def manifest(a):
            open(os.path.join(d, 'build.ninja'), 'w').write('rule a\n  command = sh ./A.sh\n%sbuild mid: a src || oo\n' % a)
        manifest(first)
        open(os.path.join(d, 'A.sh'), 'w').write('echo A >> ran.log\ntouch mid\nprintf "mid: %s\\n" > mid.d\n' % ' '.join(rec_deps))
        sh('touch -d @1000000000 src hdr oo')
        sh('%s mid' % n2)
        manifest(attrs)
        open(os.path.join(d, 'out.bin'), 'wb').write(b''.join(chunks))
        body = 'echo A >> ran.log\ntouch mid\ncat out.bin\nrm -f mid.d\n'
        if deptext is not None:
            open(os.path.join(d, 'dep.src'), 'wb').write(deptext)
            body += 'cp dep.src mid.d\n'
        open(os.path.join(d, 'A.sh'), 'w').write(body)
        sh('touch -d @1000000100 src')
        r2 = sh('%s mid' % n2)
        sh('rm -f ran.log; touch -d @1000000200 hdr')
        r3 = sh('%s mid' % n2)
        ran = os.path.exists(os.path.join(d, 'ran.log'))
        return ran, r2.stdout, r3.stdout.strip()[-100:]
    finally:
        shutil.rmtree(d, ignore_errors=True)


def run_taskchain(ctx, out, pid, groups):
    from lib.driver import Violation
    from lib.mcheck import finish_exploration, load_interp, merge_cov
    I = load_interp(ctx)
    H = TaskChain(I, ctx.tree, groups)
    ex = M.explore(I, H, jobs=ctx.jobs, time_budget=1200 if ctx.quick() else 3 * 3600, keep_all=True)
    name = ('S-task chain: S-full with the REAL Runner::start/wait, run_task, read_depfile, extract_showincludes; the command reports '
            'through depfile text / showIncludes output (%d variants)' % len(VARIANTS))
    outcomes = {}
    for s in ex.all_summaries:
        outcomes[s] = outcomes.get(s, 0) + 1
    merge_cov(out.coverage, name, ex, {'outcomes (variant:started A,B)': outcomes})
    finish_exploration(out, ex, name)
    for key, lst in ex.failures.items():
        seen = set()
        for desc, model, extra in lst:
            vi = (extra or {}).get('variant', (model or {}).get('variant', 0))
            if vi in seen or len(seen) >= 3:
                continue
            seen.add(vi)
            if model is None or not extra:
                out.add(Violation('M:task:' + key, desc + ' (no model)', replay={}, reproduced=False))
                continue
            mode, deptext, chunks, reported = VARIANTS[vi]
            rec_deps = extra.get('rec_deps') or []
            ran, shown2, txt = native_probe(ctx.tree, rec_deps, vi)
            if key == 'shown-output':
                want = shown_output(mode, chunks)
                bad = want not in shown2 or (mode == 'showinc' and NOTE in shown2)
                out.add(Violation('M:task:' + key, '%s; natively n2 printed %r' % (desc[:300], shown2[-200:]),
                                  replay={'variant': vi, 'rec_deps': rec_deps, 'kind': 'shown'}, reproduced=bad))
                continue
            names = []
            for x in (reported or ()):
                c = x[2:] if x.startswith('./') else x
                if c not in names and c != 'src':
                    names.append(c)
            want_hdr = 'hdr' in names
            out.add(Violation('M:task:' + key, '%s; natively: build with depfile listing %r, rebuild with the command reporting through %s, '
                              'touch hdr -> A re-runs: %r (the property requires %r; n2: %s)' % (
                                  desc[:300], rec_deps, 'depfile %r' % deptext if mode == 'depfile' else 'output %r' % b''.join(chunks), ran, want_hdr, txt),
                              replay={'variant': vi, 'rec_deps': rec_deps, 'want_hdr': want_hdr, 'kind': 'deps'}, reproduced=(ran != want_hdr)))
    return ex


def replay_taskchain(ctx, cex):
    rp = cex['replay']
    ran, shown2, txt = native_probe(ctx.tree, rp['rec_deps'], rp['variant'])
    mode, deptext, chunks, reported = VARIANTS[rp['variant']]
    if rp.get('kind') == 'shown':
        want = shown_output(mode, chunks)
        bad = want not in shown2 or (mode == 'showinc' and NOTE in shown2)
    else:
        bad = ran != rp['want_hdr']
    print('native: touch hdr re-runs A: %r; second build printed %r' % (ran, shown2[-200:]))
    print('REPRODUCED' if bad else 'NOT-REPRODUCED')
    return 1 if bad else 0
