"""S-full chain harness (engine M): TWO steps `mid: A src` -> `out: B mid` run by the real Work::run with the REAL
check_build_dirty, record_finished, hash_build, db::Writer::write_build, over a symbolic file system, the recording
hasher and the log-file model.  Both steps start with records of an arbitrary earlier successful build (hashes made by
the real hash_build over recorded mtimes); the current file system is an independent symbolic state.  The executor
model applies each successful command's effects: new output mtimes (fresh symbolic), optionally consuming (deleting)
its input, optionally reporting discovered dependencies.
Oracle: which steps must run, computed from the manifest rule with the mtimes each step sees WHEN IT IS JUDGED
(after its producer ran); the set of started commands must equal it, and afterwards what is recorded for a step must
make an immediate second judgement of the same state clean (no work to do).
"""
import z3

import mirsym as M
from mirsym import Agg, BoolV, Cell, IntV, Opaque, Ref, UNIT, err, none, ok, some, usize, vec, string
from mirsym.build import Layout, World, buildid, fileid, dm_items, hashmap, densemap
from checks import dirtylib as D
from checks import dblib

NAMES = ['src', 'hdr', 'mid', 'out', 'oo']
DEPS = [None, (), ('hdr',), ('hdr', 'src'), ('./hdr', 'hdr')]


class Chain:
    def __init__(self, I, tree, groups, adopt=False):
        self.L = Layout(tree.path)
        self.groups = groups
        self.adopt = adopt
        self.fn_new = I.fn('new', 'work.rs', impl='Work')
        self.fn_want = I.fn('want_file', 'work.rs', impl='Work')
        self.fn_run = I.fn('run', 'work.rs', impl='Work')
        self.fn_hash = I.fn('hash_build', 'hash.rs')
        self.fn_open = I.fn('open', 'db.rs')
        self.hashes = []
        self.fs = None
        self.disk = None
        self.install(I)

    def world(self, rec_deps):
        w = World(self.L)
        f = {n: w.file(n) for n in NAMES}
        w.add_build([f['mid']], explicit=[f['src']], order_only=[f['oo']], cmdline=b'A', discovered=[f[d] for d in rec_deps])
        w.add_build([f['out']], explicit=[f['mid']], cmdline=b'B')
        return w, f

    def install(self, I):
        L = self.L
        H = self

        def m_runner_new(I, args, callee):
            return L.mk('Runner', tx=Opaque('tx'), rx=Opaque('rx'), running=usize(0), tids=Opaque('tids'), parallelism=args[0])

        def m_start(I, args, callee):
            runner = I.deref(args[0])
            b = I.deref(args[1]).fields[0].v if not isinstance(args[1], Agg) else args[1].fields[0].v
            H.events.append(('start', b))
            H.running.append(b)
            rf = L.idx('Runner', 'running')
            runner.fields[rf] = I.binop('Add', runner.fields[rf], usize(1))
            return UNIT

        def m_wait(I, args, callee):
            runner = I.deref(args[0])
            b = H.running.pop(0)
            okk = I.choose('ok%d' % b, 2) == 1
            deps = none()
            if okk:
                # effects of the command on the file system
                outname = b'mid' if b == 0 else b'out'
                H.fs.fresh(I, outname.decode(), 'new', can_miss=False)
                H.fs.files[outname] = H.fs.files.pop(outname.decode())
                I.solver.add(z3.ULT(H.fs.files[outname][1].v, 1 << 31))
                if b == 0:
                    if I.choose('consume_input', 2) == 1:
                        ent = H.fs.files[b'src']
                        H.fs.files[b'src'] = (BoolV(True), ent[1], ent[2])
                        H.consumed = True
                    dl = DEPS[I.choose('reported_deps', len(DEPS))]
                    H.reported = dl
                    if dl is not None:
                        deps = some(vec(string(x.encode()) for x in dl))
            H.events.append(('fin', b, okk))
            rf = L.idx('Runner', 'running')
            runner.fields[rf] = I.binop('Sub', runner.fields[rf], usize(1))
            result = L.mk('TaskResult', termination=Agg('Termination', [], 'Success' if okk else 'Failure'), output=vec(), discovered_deps=deps)
            return L.mk('FinishedTask', tid=usize(0), buildid=buildid(b), span=Opaque('span'), result=result)

        I.hooks['dyn:update'] = lambda I, a, c: UNIT
        for nm in ('task_started', 'task_output', 'task_finished', 'log'):
            I.hooks['dyn:' + nm] = lambda I, a, c: UNIT
        ovr = [
            (r'(^|::)register_sigint$', lambda I, a, c: UNIT),
            (r'(^|::)was_interrupted$', lambda I, a, c: BoolV(False)),
            (r'^enabled$|trace::enabled$', lambda I, a, c: BoolV(False)),
            (r'(^|::)Runner::new$', m_runner_new),
            (r'(^|::)Runner::start$', m_start),
            (r'(^|::)Runner::wait::', m_wait),
            (r'(^|::)Work::<.*>::create_parent_dirs$', lambda I, a, c: ok(UNIT)),
        ]
        I.set_overrides(ovr + D.hasher_models(self) + D.fs_models(self) + dblib.install(I, self))

    def run_path(self, I):
        L = self.L
        self.hashes = []
        self.events = []
        self.running = []
        self.consumed = False
        self.reported = None
        self.disk = dblib.Disk()
        rec_deps = [(), ('hdr',)][I.choose('recorded_deps', 2)]
        rec = D.FS()
        cur = D.FS()
        for n in NAMES:
            rec.fresh(I, n, 'rec', can_miss=False)
            cur.fresh(I, n, 'cur', can_miss=True)
            I.solver.add(z3.ULT(rec.files[n][1].v, 1 << 31), z3.ULT(cur.files[n][1].v, 1 << 31))
        rec.files = {k.encode(): v for k, v in rec.files.items()}
        cur.files = {k.encode(): v for k, v in cur.files.items()}
        w, f = self.world(rec_deps)
        g = w.graph()
        have = [I.choose('have_record%d' % b, 2) == 1 for b in range(2)]
        pairs = []
        fsr = Agg('FileState', [densemap([some(D.stamp(rec.files[nm][1], rec.files[nm][2])) for nm in w.names])])
        for b in range(2):
            if have[b]:
                bb = dm_items(L.get(g, 'builds'))[b]
                h = I.call_fn(self.fn_hash, [Ref(Cell(L.get(g, 'files')), ()), Ref(Cell(fsr), ()), Ref(Cell(bb), ())])
                pairs.append((buildid(b), h))
        hashes = Agg('Hashes', [hashmap(pairs)])
        # the log writer (fresh log)
        h0 = dblib.empty_hashes(L)
        r = I.call_fn(self.fn_open, [M.static_str(b'.n2_db'), Ref(Cell(g), ()), Ref(Cell(h0), ())])
        writer = r.fields[0]
        self.fs = cur
        opts = L.mk('Options', failures_left=none(), parallelism=usize(1), explain=BoolV(False), adopt=BoolV(self.adopt))
        prog = Ref(Cell(Agg('ProgressMon', [])), (), dyn_ty='&ProgressMon')
        work = I.call_fn(self.fn_new, [g, hashes, writer, Ref(Cell(opts), ()), prog, Agg('SmallMap', [vec()])])
        wc = Cell(work)
        r = I.call_fn(self.fn_want, [Ref(wc, ()), fileid(f['out'])])
        pre = dict(cur.files)
        res = I.call_fn(self.fn_run, [Ref(wc, ())])
        started = [any(e == ('start', b) for e in self.events) for b in range(2)]
        succeeded = [any(e == ('fin', b, True) for e in self.events) for b in range(2)]
        # ---------------- oracle
        def miss(ent):
            return ent[0].z()
        a_rel = [b'src', b'mid'] + [d.encode() for d in rec_deps]
        a_dirty = z3.Or([z3.BoolVal(not have[0])] + [miss(pre[n]) for n in a_rel] +
                        [z3.Not(D.mtime_eq(rec.files[n], pre[n])) for n in a_rel])
        extra = {'events': list(self.events), 'rec_deps': list(rec_deps), 'have': have, 'reported': self.reported, 'consumed': self.consumed}
        if res.variant == 'Err':
            msg = M.models.anyhow_text(I, res.fields[0]) or b''
            if 'C02' in self.groups or 'C09' in self.groups:
                I.oblige(I._boolv(miss(pre[b'src'])), 'error-without-missing-source',
                         'the build fails (%r) although the declared source input exists' % msg[:100], extra=extra)
            return 'err'
        if self.adopt:
            if started[0] or started[1]:
                I.fail('adopt-ran-command', '-t restat (adopt) started a command', extra=extra)
            return 'adopt'
        G = self.groups
        if 'C02' in G and not started[0]:
            I.oblige(I._boolv(z3.Not(a_dirty)), 'stale-skip-A', 'step A skipped although its record is absent or a dirtying input / discovered dep / output changed', extra=extra)
        if 'C03' in G and started[0]:
            I.oblige(I._boolv(a_dirty), 'needless-rerun-A', 'step A re-run although nothing it depends on changed', extra=extra)
        a_done = (not started[0]) or succeeded[0]
        if a_done:
            mid_now = self.fs.files[b'mid']
            b_dirty = z3.Or(z3.BoolVal(not have[1]), miss(mid_now), miss(pre[b'out']),
                            z3.Not(D.mtime_eq(rec.files[b'mid'], mid_now)), z3.Not(D.mtime_eq(rec.files[b'out'], pre[b'out'])))
            if 'C02' in G and not started[1]:
                I.oblige(I._boolv(z3.Not(b_dirty)), 'stale-skip-B', 'step B skipped although the output of its producer A changed (or its record / own output did)', extra=extra)
            if 'C03' in G and started[1]:
                I.oblige(I._boolv(b_dirty), 'needless-rerun-B', 'step B re-run although its input mid kept its recorded timestamp and nothing else changed', extra=extra)
        # ---------------- what was recorded: discovered deps of A replaced wholesale, canonical, de-duplicated, minus declared dirtying inputs
        if succeeded[0] and 'C09' in G:
            bb = dm_items(L.get(L.get(work, 'graph'), 'builds'))[0]
            files = dm_items(L.get(L.get(L.get(work, 'graph'), 'files'), 'by_id'))
            got = [bytes(x.v for x in L.get(files[d.fields[0].v], 'name').fields[0].fields) for d in L.get(bb, 'discovered_ins').fields]
            if self.reported is None:
                want = []
            else:
                want = []
                for x in self.reported:
                    c = x[2:] if x.startswith('./') else x
                    if c.encode() not in want and c != 'src':
                        want.append(c.encode())
            if got != want:
                extra = dict(extra, want_deps=[x.decode() for x in want], got_deps=[x.decode() for x in got])
                I.fail('discovered-list', 'after A succeeded reporting %r (old list %r) its discovered deps are %r, expected %r' % (self.reported, list(rec_deps), got, want), extra=extra)
        return 'ok:%s' % (''.join('1' if s else '0' for s in started))


# ---------------------------------------------------------------------------------------------------- native replay
def _ts(model, tag, name):
    return '%d.%09d' % (model.get('%s_secs_%s' % (tag, name), 0), model.get('%s_nanos_%s' % (tag, name), 0))


def native_replay(tree, model, extra):
    """end-to-end replay with the real n2 binary: build a project whose commands set exact mtimes, record state R with a
    first invocation, install the current state, run again and compare the commands that ran with the oracle."""
    import os
    import shutil
    import subprocess
    import tempfile
    have = extra['have']
    if have[0] != have[1]:
        return None, 'not replayable end to end (one record present, one absent)'
    n2 = tree.n2_bin()
    d = tempfile.mkdtemp(prefix='n2verif-chain-')
    try:
        def sh(cmd):
            return subprocess.run(cmd, shell=True, cwd=d, stdout=subprocess.PIPE, stderr=subprocess.STDOUT, text=True, timeout=60)
        open(os.path.join(d, 'build.ninja'), 'w').write(
            'rule a\n  command = sh ./A.sh\n  depfile = mid.d\nrule b\n  command = sh ./B.sh\n'
            'build mid: a src || oo\nbuild out: b mid\n')
        rec_deps = extra['rec_deps']

        def script(name, outname, ts, deps, consume, okk):
            body = 'echo %s >> ran.log\n' % name
            if not okk:
                body += 'exit 1\n'
            else:
                body += 'touch -d @%s %s\n' % (ts, outname)
                if deps is not None:
                    body += 'printf "%s: %s\\n" > mid.d\n' % (outname, ' '.join(deps))
                else:
                    body += 'rm -f mid.d\n'
                if consume:
                    body += 'rm -f src\n'
            open(os.path.join(d, name + '.sh'), 'w').write(body)
        for n in NAMES:
            sh('touch -d @%s %s' % (_ts(model, 'rec', n), n))
        if have[0]:
            script('A', 'mid', _ts(model, 'rec', 'mid'), list(rec_deps), False, True)
            script('B', 'out', _ts(model, 'rec', 'out'), None, False, True)
            sh('rm -f mid out')
            r = sh('%s out' % n2)
            # sources were just stat()ed with their recorded mtimes; outputs were set by the commands
        sh('rm -f ran.log')
        for n in NAMES:
            if model.get('cur_missing_' + n, False):
                sh('rm -f %s' % n)
            else:
                sh('touch -d @%s %s' % (_ts(model, 'cur', n), n))
        script('A', 'mid', _ts(model, 'new', 'mid'), None if extra['reported'] is None else list(extra['reported']),
               extra['consumed'], model.get('ok0', 1) == 1)
        script('B', 'out', _ts(model, 'new', 'out'), None, False, model.get('ok1', 1) == 1)
        r = sh('%s out' % n2)
        ran = open(os.path.join(d, 'ran.log')).read().split() if os.path.exists(os.path.join(d, 'ran.log')) else []
        res = {'ran': ran, 'output': r.stdout[-300:], 'rc': r.returncode}
        if 'want_deps' in extra:
            # probe which files are remembered as dependencies of A: touching one must re-run A iff it is on the list
            probes = {}
            for n in ('hdr',):
                sh('rm -f ran.log; [ -e src ] || touch -d @1999999990.0 src; touch -d @1999999999.5 %s' % n)
                script('A', 'mid', '1999999998.0', None if extra['reported'] is None else list(extra['reported']), False, True)
                r3 = sh('%s mid' % n2)
                ran3 = open(os.path.join(d, 'ran.log')).read().split() if os.path.exists(os.path.join(d, 'ran.log')) else []
                probes[n] = 'A' in ran3
                res['probe_out'] = r3.stdout[-200:] + ' | ls: ' + sh('ls -la --time-style=full-iso; cat A.sh')[0 if False else 'stdout'] if False else r3.stdout[-200:]
            res['dep_probe'] = probes
        return res, None
    finally:
        shutil.rmtree(d, ignore_errors=True)


def native_deps_probe(tree, rec_deps, reported):
    """canonical end-to-end scenario for the remembered-dependency list: build with a depfile listing rec_deps, rebuild
    with the command reporting `reported`, then touch hdr: does A run again?"""
    import os
    import shutil
    import subprocess
    import tempfile
    import time
    n2 = tree.n2_bin()
    d = tempfile.mkdtemp(prefix='n2verif-deps-')
    try:
        def sh(cmd):
            return subprocess.run(cmd, shell=True, cwd=d, stdout=subprocess.PIPE, stderr=subprocess.STDOUT, text=True, timeout=60)
        open(os.path.join(d, 'build.ninja'), 'w').write('rule a\n  command = sh ./A.sh\n  depfile = mid.d\nbuild mid: a src || oo\n')

        def script(deps):
            body = 'echo A >> ran.log\ntouch mid\n'
            body += ('printf "mid: %s\\n" > mid.d\n' % ' '.join(deps)) if deps is not None else 'rm -f mid.d\n'
            open(os.path.join(d, 'A.sh'), 'w').write(body)
        sh('touch -d @1000000000 src hdr oo')
        script(list(rec_deps))
        sh('%s mid' % n2)
        script(None if reported is None else list(reported))
        sh('touch -d @1000000100 src')
        sh('%s mid' % n2)
        sh('rm -f ran.log; touch -d @1000000200 hdr')
        r = sh('%s mid' % n2)
        ran = os.path.exists(os.path.join(d, 'ran.log'))
        return ran, r.stdout.strip()[-100:]
    finally:
        shutil.rmtree(d, ignore_errors=True)


def oracle(model, extra):
    """which of A, B must run, from concrete values (None = the build must stop with an error before deciding)"""
    def ent(tag, n):
        return (model.get('%s_missing_%s' % (tag, n), False) if tag == 'cur' else False,
                model.get('%s_secs_%s' % (tag, n), 0), model.get('%s_nanos_%s' % (tag, n), 0))
    have = extra['have']
    rec_deps = extra['rec_deps']
    if ent('cur', 'src')[0]:
        return None
    a_rel = ['src', 'mid'] + list(rec_deps)
    a = (not have[0]) or any(ent('cur', n)[0] for n in a_rel) or any(ent('rec', n)[1:] != ent('cur', n)[1:] for n in a_rel)
    want = ['A'] if a else []
    if a and model.get('ok0', 1) != 1:
        return want
    mid = ent('new', 'mid') if a else ent('cur', 'mid')
    b = (not have[1]) or mid[0] or ent('cur', 'out')[0] or ent('rec', 'mid')[1:] != mid[1:] or ent('rec', 'out')[1:] != ent('cur', 'out')[1:]
    if b:
        want.append('B')
    return want


def run_chain(ctx, out, pid, groups, adopt=False):
    from lib.driver import Violation
    from lib.mcheck import finish_exploration, load_interp, merge_cov
    I = load_interp(ctx)
    H = Chain(I, ctx.tree, groups, adopt=adopt)
    ex = M.explore(I, H, jobs=ctx.jobs, time_budget=1200 if ctx.quick() else 3 * 3600, keep_all=True)
    name = 'S-full chain: real check_build_dirty + record_finished + hash_build + write_build, symbolic records and file system' + (' (adopt)' if adopt else '')
    outcomes = {}
    for s in ex.all_summaries:
        outcomes[s] = outcomes.get(s, 0) + 1
    merge_cov(out.coverage, name, ex, {'outcomes (started A,B)': outcomes})
    finish_exploration(out, ex, name)
    for key, lst in ex.failures.items():
        cands = sorted(lst, key=lambda t: 0 if (t[2] and t[2]['have'][0] == t[2]['have'][1] and (t[1] or {}).get('ok0', 1) == 1) else 1)
        for desc, model, extra in cands[:2]:
            if model is None or not extra:
                out.add(Violation('M:chain:' + key, desc + ' (no model)', replay={}, reproduced=False))
                continue
            if key == 'discovered-list':
                ran, txt = native_deps_probe(ctx.tree, extra['rec_deps'], extra['reported'])
                want_hdr = 'hdr' in extra.get('want_deps', [])
                out.add(Violation('M:chain:' + key, '%s; natively: build with depfile listing %r, rebuild reporting %r, touch hdr -> A re-runs: %r '
                                  '(the property requires %r; n2: %s)' % (desc[:260], extra['rec_deps'], extra['reported'], ran, want_hdr, txt),
                                  replay={'probe': [extra['rec_deps'], extra['reported']], 'want_hdr': want_hdr}, reproduced=(ran != want_hdr)))
                continue
            nat, why = native_replay(ctx.tree, model, extra)
            if nat is None:
                out.add(Violation('M:chain:' + key, desc[:300] + ' -> ' + why, replay={'model': model, 'extra': extra}, reproduced=False))
                continue
            want = oracle(model, extra)
            if key == 'discovered-list':
                pr = nat.get('dep_probe', {})
                bad = any(pr.get(n) != (n in extra.get('want_deps', [])) for n in pr)
                detail = 'after the build, touching hdr re-runs A: %r; hdr should%s be a remembered dependency (n2: %s | probe: %s)' % (
                    pr.get('hdr'), '' if 'hdr' in extra.get('want_deps', []) else ' not', nat['output'].strip()[-100:], nat.get('probe_out'))
            elif want is None:
                bad = nat['rc'] == 0
                detail = 'expected an error, native %r' % (nat,)
            else:
                bad = nat['ran'] != want
                detail = 'commands run natively %r, the manifest rule requires %r (n2 said: %s)' % (nat['ran'], want, nat['output'].strip()[-120:])
            out.add(Violation('M:chain:' + key, '%s; %s' % (desc[:300], detail), replay={'model': model, 'extra': extra, 'want': want}, reproduced=bad))
    return ex


def replay_chain(ctx, cex):
    nat, why = native_replay(ctx.tree, cex['replay']['model'], cex['replay']['extra'])
    want = cex['replay'].get('want')
    print('native: %r ; required: %r' % (nat, want))
    bad = nat is not None and want is not None and nat['ran'] != want
    print('REPRODUCED' if bad else 'NOT-REPRODUCED')
    return 1 if bad else 0
