"""Shared M harness pieces around the manifest loader (hooks/load.rs::verif_load) - used by C10, C11, C12, C14."""
import z3

import mirsym as M
from mirsym import Agg, Cell, IntV, Opaque, Ref, SliceRef, err, ok
from mirsym.models import conc_bytes, elems, as_slice


def sym_buffer(I, prefix, nsym, alphabet=None, exclude=(), suffix=b'', tag='b'):
    """prefix (concrete bytes) + nsym symbolic bytes + suffix + NUL.  Returns list of IntV(8)."""
    bs = [IntV(8, c) for c in prefix]
    for i in range(nsym):
        b = I.fresh_int('%s%d' % (tag, i), 8)
        if alphabet is not None:
            I.solver.add(z3.Or([b.v == c for c in alphabet]))
        for c in exclude:
            I.solver.add(b.v != c)
        bs.append(b)
    bs += [IntV(8, c) for c in suffix]
    bs.append(IntV(8, 0))
    return bs


def buf_ref(bs):
    return SliceRef(Cell(Agg('bytes', list(bs))), (), 0, len(bs))


def model_bytes(model, n, tag='b'):
    return bytes(model.get('%s%d' % (tag, i), 0x61) for i in range(n))


def msg_bytes(e):
    """message of an anyhow error as bytes with '?' for symbolic bytes (b'' when unknown)"""
    if isinstance(e, Opaque) and e.parts:
        p = e.parts[0]
        if isinstance(p, Agg) and p.kind == 'String':
            return bytes(b.v if b.conc() else 63 for b in p.fields[0].fields)
        if isinstance(p, Opaque):
            return msg_bytes(p)
    return b''


def m_read_file_none(I, args, callee):
    """scanner::read_file_with_nul for include/subninja targets: the file does not exist"""
    return err(Opaque('io::Error', ('NotFound',)))


def m_io_error_kind(I, args, callee):
    e = I.deref(args[0])
    return Agg('ErrorKind', [], e.parts[0])


def scanner_invariant_hook(H):
    """assume/guarantee split with the Kani leaf harnesses: on entry of a leaf reader the scanner never rests on
    the LF of a CR LF pair (Scanner::back() would step over both bytes)."""
    def hook(I, args):
        p = I.deref(args[0])
        sc = p.fields[0] if p.kind == 'Parser' else p
        buf, ofs = sc.fields[0], sc.fields[1]
        if not ofs.conc():
            return
        o = ofs.v
        if o == 0:
            return
        es = elems(I, as_slice(I, buf))
        if o >= len(es):
            return
        cur, prev = es[o], es[o - 1]
        bad = I.binop('BitAnd', I.binop('Eq', cur, IntV(8, 10)), I.binop('Eq', prev, IntV(8, 13)))
        I.oblige(I.bnot(bad), 'scanner-rests-on-lf-of-crlf',
                 'leaf reader entered with the scanner on the LF of a CR LF pair (back() would step over two bytes)')
    return hook


LEAF_READERS = ['read_ident', 'read_simple_varname', 'skip_comment', 'read_escape']


def install_loader_env(I, H, include_model=None):
    I.add_enum('ErrorKind', ['NotFound', 'PermissionDenied', 'UnexpectedEof', 'Other'])
    I.set_overrides([(r'read_file_with_nul$', include_model or m_read_file_none),
                     (r'^std::io::Error::kind$', m_io_error_kind),
                     (r'^scope::<', m_trace_scope), (r'^trace::scope::<', m_trace_scope)])
    for nm in LEAF_READERS:
        I.hooks['enter:' + nm] = scanner_invariant_hook(H)


def m_trace_scope(I, args, callee):
    """trace::scope(name, f) = f() (tracing disabled)"""
    return I.call_closure(args[1], [])
