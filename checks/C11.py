"""C11 - variables are expanded with Ninja's scoping rules.

Engine M, structured families (checks/manifestlib.py): bindings at file, rule and build level that shadow and
reference each other are drawn symbolically (which bindings exist, what each value references, a later file-level
redefinition, a second build statement after it, `$x` in a build-line path), rendered to text with symbolic literal
bytes and loaded by the real loader; the abstract-side evaluator (`expand`: first environment that binds the name
wins, its value continues in the FOLLOWING environments; file-level values are expanded when defined) gives the
command, description and path every step must end up with.  A second family nests include / subninja files two
levels deep (file contents supplied through the read_file_with_nul model).
"""
import z3

import mirsym as M
from mirsym import IntV
from lib.mcheck import Replayer, load_interp
from checks import manifestlib as ML
from checks.manifestlib import B, Loaded, ManifestHarness, Text, bytes_eq, compare_build, expand, plain, show, sym_name_byte
from checks.C10 import run_family, LL_msg, decode_dump, replay  # noqa

LEVEL = 'other'


def render(parts):
    """value parts -> manifest text (references spelled ${name})"""
    out = []
    for p in parts:
        out += p[1] if p[0] == 'lit' else B('${') + B(p[1]) + B('}')
    return out


def lit(*bs):
    return ('lit', [b if not isinstance(b, (bytes, str)) else None for b in bs] if False else sum([B(b) if isinstance(b, (bytes, str)) else [b] for b in bs], []))


def var(n):
    return ('var', n.encode() if isinstance(n, str) else n)


class Scoping(ManifestHarness):
    def generate(self, I):
        a = sym_name_byte(I, 'a')
        bb = sym_name_byte(I, 'b')
        for s_ in (a, bb):
            I.solver.add(s_.v != ord('.'), s_.v != ord('/'), s_.v != ord('\\'))
        F = {}                                   # file scope: name -> plain bytes (eagerly expanded)
        t = Text()
        # file level
        F[b'x'] = plain(B('A') + [a])
        t.add('x = A').add([a]).add('\n')
        ychoice = I.choose('file_y', 3)          # absent | literal | references x
        if ychoice == 1:
            F[b'y'] = plain(B('Y'))
            t.add('y = Y\n')
        elif ychoice == 2:
            F[b'y'] = plain(expand([var('x'), lit('y')], [F]))
            t.add('y = ${x}y\n')
        # rule
        rule = {b'command': [lit('c['), var('x'), lit(']['), var('y'), lit(']['), var('z'), lit(']'), var('in'), lit('>'), var('out')]}
        t.add('rule r\n  command = ').add(render(rule[b'command'])).add('\n')
        if I.choose('rule_desc', 2) == 1:
            rule[b'description'] = [lit('D'), var('x'), var('out')]
            t.add('  description = ').add(render(rule[b'description'])).add('\n')
        # build 1
        path_uses_x = I.choose('path_x', 2) == 1
        bvars = {}
        bx = I.choose('build_x', 4)              # absent | literal | references file x | references y
        by = I.choose('build_y', 3)              # absent | references x (must see the FILE's x) | literal
        out_parts = [lit('o'), var('x')] if path_uses_x else [lit('o')]
        t.add('build ').add(render(out_parts)).add(': r i\n')
        order = [(b'x', bx), (b'y', by)] if I.choose('binding_order', 2) == 0 else [(b'y', by), (b'x', bx)]
        for nm, ch in order:
            if ch == 0:
                continue
            if nm == b'x':
                val = {1: [lit('B', bb)], 2: [lit('B'), var('x')], 3: [var('y'), lit('b')]}[ch]
            else:
                val = {1: [var('x')], 2: [lit('Q')]}[ch]
            bvars[nm] = val
            t.add('  ').add(nm).add(' = ').add(render(val)).add('\n')
        F1 = dict(F)
        # later redefinition and a second statement
        redefine = I.choose('redefine', 2) == 1
        if redefine:
            F[b'x'] = plain(B('C'))
            t.add('x = C\n')
        second = I.choose('second', 2) == 1
        if second:
            t.add('build o2: r i\n')
        want = []

        def step(outp, bv, Fenv):
            o = expand(outp, [bv, Fenv])
            imp = {b'in': plain(B('i')), b'out': plain(o)}
            w = {'explicit_outs': [o], 'explicit_ins': [B('i')], 'cmdline': expand(rule[b'command'], [imp, bv, Fenv])}
            # an attribute bound in the build block is expanded in FILE scope only
            if b'description' in bv:
                w['desc'] = expand(bv[b'description'], [Fenv])
            elif b'description' in rule:
                w['desc'] = expand(rule[b'description'], [imp, bv, Fenv])
            else:
                w['desc'] = None
            return w
        want.append(step(out_parts, bvars, F1))
        if second:
            want.append(step([lit('o2')], {}, F))

        def expect(I, r):
            ex = self.extra()
            if r.variant != 'Ok':
                I.fail('rejected', 'a well-formed manifest is rejected: %r' % LL_msg(r), extra=ex)
            ld = Loaded(self.L, r.fields[0])
            if len(ld.builds) != len(want):
                I.fail('step-count', '%d steps declared, %d loaded' % (len(want), len(ld.builds)), extra=ex)
            for k, w in enumerate(want):
                compare_build(I, ld.build(k), w, ex)
            return 'ok'
        return t.bs, {}, expect


class Includes(ManifestHarness):
    """x defined at the top; inc.ninja (include or subninja) defines w from x and a rule; inc2.ninja nested in it declares a step"""

    def generate(self, I):
        a = sym_name_byte(I, 'a')
        I.solver.add(a.v != ord('.'), a.v != ord('/'), a.v != ord('\\'))
        kind1 = [b'include', b'subninja'][I.choose('outer', 2)]
        kind2 = [b'include', b'subninja'][I.choose('inner', 2)]
        t = Text()
        t.add('x = A').add([a]).add('\nrule k\n  command = k[${x}][${w}]\n').add(kind1).add(' inc.ninja\nbuild o: r i\nbuild o3: k i\n')
        inc = Text().add('rule r\n  command = c[${x}][${w}]\nw = W${x}\n').add(kind2).add(' inc2.ninja\n')
        inc2 = Text().add('build p: r q\nbuild p3: k q\n')
        xa = B('A') + [a]
        wv = B('W') + xa
        # steps are numbered in load order: inc2's first
        want = [
            {'explicit_outs': [B('p')], 'explicit_ins': [B('q')], 'cmdline': B('c[') + xa + B('][') + wv + B(']')},
            {'explicit_outs': [B('p3')], 'explicit_ins': [B('q')], 'cmdline': B('k[') + xa + B('][') + wv + B(']')},
            # after the include/subninja statement, in the top-level file
            {'explicit_outs': [B('o')], 'explicit_ins': [B('i')], 'cmdline': B('c[') + xa + B('][') + (wv if kind1 == b'include' else []) + B(']')},
            {'explicit_outs': [B('o3')], 'explicit_ins': [B('i')], 'cmdline': B('k[') + xa + B('][') + (wv if kind1 == b'include' else []) + B(']')},
        ]

        def expect(I, r):
            ex = self.extra()
            if r.variant != 'Ok':
                I.fail('rejected', 'a well-formed manifest is rejected: %r' % LL_msg(r), extra=ex)
            ld = Loaded(self.L, r.fields[0])
            if len(ld.builds) != 4:
                I.fail('step-count', '4 steps declared, %d loaded' % len(ld.builds), extra=ex)
            for k, w in enumerate(want):
                got = ld.build(k)
                if k >= 2 and kind1 == b'include':
                    # the including file must see what the included file bound (separate key: see known_findings.txt)
                    g = got['cmdline']
                    if g is None or len(g) != len(w['cmdline']):
                        I.fail('include-does-not-extend-scope', 'after `include inc.ninja` the including file does not see the variable w bound in it: '
                               'command %r, expected %r' % (None if g is None else show(g), show(w['cmdline'])), extra=ex)
                compare_build(I, got, w, ex)
            return 'ok'
        return t.bs, {b'inc.ninja': inc.bs, b'inc2.ninja': inc2.bs}, expect


def run(ctx, out):
    I = load_interp(ctx)
    rep = Replayer(ctx.tree)
    run_family(ctx, out, I, rep, Scoping(I, ctx.tree), 'bindings at file / rule / build level shadowing and referencing each other')
    run_family(ctx, out, I, rep, Includes(I, ctx.tree), 'include / subninja nested two levels deep')
    rep.close()
    cov = out.coverage
    cov.update({
        'explanation': 'bounded symbolic execution of the real loader and evaluator on structured manifests whose binding structure is drawn '
                       'symbolically; the abstract-side evaluator states what every command / description / path must expand to',
        'evaluations': cov.get('paths', 0), 'distinct_nontrivial': cov.get('paths', 0),
        'rule': 'one evaluation = one feasible path class (binding structure x literal bytes) closed by the solver',
        'samples': [{'family': k, 'paths': v['paths']} for k, v in cov['harnesses'].items()],
        'bounds': {'scoping': 'file x (+y), rule command (+description), build bindings x and y in both orders, one redefinition, a second statement',
                   'includes': 'two levels, include or subninja at each'},
        'outside_the_claim': ['more than three nesting levels of reference', 'more than two bindings per level'],
    })
    out.assumptions += ['std models listed; the abstract-side evaluator (manifestlib.expand) is the meaning of the scoping rules']
