"""C12 - any input is either loaded or rejected with a diagnostic.

Engine M: the whole manifest pipeline (hooks/load.rs::verif_load = Parser::read loop, bindings, rule/build/default/
pool registration, evaluation, canonicalisation, Graph::add_build, and format_parse_error on the error path) is
executed on NUL-terminated buffers whose bytes are symbolic.  On every path the solver must show that no
out-of-bounds / unchecked access, arithmetic overflow, str-boundary violation or panic is reachable; the outcome is
Ok or Err(text), and a syntax error's text has the `parse error: ..\\nfile:line: excerpt\\n  ^` shape.
Further families: the error-excerpt arithmetic on long lines with a symbolic error offset, command-line target
strings through to_owned_canon_path, depfiles (read_depfile), very deep paths.
Engine K: the leaf scanners with real memory semantics from a symbolic start offset (hooks/parse.rs).
"""
import re

import z3

import mirsym as M
from mirsym import Agg, Cell, IntV, Opaque, Ref, SliceRef
from lib.driver import Violation
from lib.kcheck import run_k
from lib.mcheck import Replayer, finish_exploration, hexs, load_interp, merge_cov
from checks import loaderlib as L

LEVEL = 'other'


class Manifest:
    """prefix + nsym symbolic bytes (+ suffix) through the whole loader"""

    def __init__(self, I, prefix, nsym, alphabet=None, suffix=b''):
        self.prefix, self.nsym, self.alphabet, self.suffix = prefix, nsym, alphabet, suffix
        self.entry = I.fn('verif_load', 'load.rs')
        L.install_loader_env(I, self)

    def run_path(self, I):
        bs = L.sym_buffer(I, self.prefix, self.nsym, self.alphabet, suffix=self.suffix)
        r = I.call_fn(self.entry, [L.buf_ref(bs)])
        if r.variant == 'Err':
            msg = L.msg_bytes(r.fields[0])
            if msg.startswith(b'parse error: '):
                if not re.match(rb'^parse error: [^\n]*\n[^\n]*build\.ninja:\d+: [^\n]*\n *\^\n$', msg, re.S):
                    I.fail('diagnostic-shape', 'syntax error text lacks file:line, excerpt and caret: %r' % msg)
                return 'err:parse'
            return 'err:' + re.sub(rb'[^a-z ]', b'', msg[:24]).decode()
        return 'ok'

    def concrete(self, model):
        return self.prefix + L.model_bytes(model, self.nsym) + self.suffix


class Bindings:
    """structured family: a rule block and a build block whose bindings refer to each other (and to themselves) in
    every combination; totality of evaluation (no unbounded recursion, no panic)"""
    NAMES = [b'command', b'description', b'rspfile']
    REFS = [b'lit', b'$command', b'${description}', b'$rspfile', b'$w $out', b'$rspfile$rspfile']

    def __init__(self, I):
        self.entry = I.fn('verif_load', 'load.rs')
        L.install_loader_env(I, self)

    def text(self, pick):
        t = b'w = top $rspfile\nrule r\n'
        for i, nm in enumerate(self.NAMES[:3]):
            t += b'  ' + nm + b' = ' + self.REFS[pick[i]] + b'\n'
        t += b'build o: r i\n  ' + (b'w', b'rspfile', b'description')[pick[4]] + b' = ' + self.REFS[pick[3]] + b'\n'
        return t

    def run_path(self, I):
        pick = [I.choose('ref%d' % i, len(self.REFS)) for i in range(4)] + [I.choose('bname', 3)]
        self.pick = pick
        t = self.text(pick)
        r = I.call_fn(self.entry, [L.buf_ref([IntV(8, c) for c in t] + [IntV(8, 0)])])
        return 'ok' if r.variant == 'Ok' else 'err'

    def concrete(self, model):
        return self.text([model.get('ref%d' % i, 0) for i in range(4)] + [model.get('bname', 0)])


class Excerpt:
    """format_parse_error on a buffer of concrete content with a SYMBOLIC error offset (long-line arithmetic)"""

    def __init__(self, I, text):
        self.text = text
        self.fn = I.fn('format_parse_error', 'scanner.rs', impl='Scanner')
        I.set_overrides([])

    def run_path(self, I):
        bs = [IntV(8, c) for c in self.text] + [IntV(8, 0)]
        sc = Agg('Scanner', [L.buf_ref(bs), IntV(64, 0), IntV(64, 1)])
        ofs = I.fresh_int('ofs', 64)
        I.solver.add(z3.ULE(ofs.v, len(self.text)))
        perr = Agg('ParseError', [M.string(b'boom'), ofs])
        r = I.call_fn(self.fn, [Ref(Cell(sc), ()), M.static_str(b'build.ninja'), perr])
        msg = bytes(b.v if b.conc() else 63 for b in r.fields[0].fields)
        if not re.match(rb'^parse error: boom\n[^\n]*build\.ninja:\d+: [^\n]*\n *\^\n$', msg, re.S):
            I.fail('diagnostic-shape', 'diagnostic lacks file:line, excerpt and caret: %r' % msg)
        return 'ok'


class Target:
    """a command-line target string: Work::lookup's to_owned_canon_path(name)"""

    def __init__(self, I, n):
        self.n = n
        self.fn = I.fn('to_owned_canon_path', 'canon.rs')
        I.set_overrides([])

    def run_path(self, I):
        bs = [I.fresh_int('b%d' % i, 8) for i in range(self.n)]
        for b in bs:
            I.solver.add(b.v != 0)
        s = M.string_of(bs)
        r = I.call_fn(self.fn, [s])
        return 'ok'


class DeepPath:
    """Loader::path on `a/` * k + `a` (concrete): the fixed-size component stack"""

    def __init__(self, I, k):
        self.k = k
        self.fn = I.fn('to_owned_canon_path', 'canon.rs')
        I.set_overrides([])

    def run_path(self, I):
        I.call_fn(self.fn, [M.string(b'a/' * self.k + b'a')])
        return 'ok'


def native_manifest(rep, text):
    ans = rep.ask('load ' + hexs(text))
    bad = ans.startswith('PANIC') or ans.startswith('ABORT')
    return bad, ans[:300]


def run(ctx, out):
    I = load_interp(ctx)
    rep = Replayer(ctx.tree)
    cov = out.coverage
    quick = ctx.quick()
    fams = []
    # (name, prefix, nsym, alphabet, suffix)
    SYN = list(b'ab $:|@#={}\n\r.\t') + [0xC3, 0xA9, 0]
    if quick:
        fams += [('raw bytes', b'', n, None, b'') for n in (1, 2, 3)]
        fams += [('syntax alphabet', b'', 4, SYN, b'')]
        kw = 3
    else:
        fams += [('raw bytes', b'', n, None, b'') for n in (1, 2, 3, 4)]
        fams += [('syntax alphabet', b'', n, SYN, b'') for n in (5, 6)]
        kw = 5
    for pre in (b'build ', b'rule ', b'default ', b'pool ', b'include ', b'subninja ', b'x = ', b'build a: phony ',
                b'build a: r\n ', b'rule r\n ', b'pool p\n depth = '):
        fams.append(('after %r' % pre.decode(), pre, kw, SYN, b''))
        if quick:
            fams.append(('after %r + newline' % pre.decode(), pre, kw - 1, SYN, b'\n'))
    samples = []
    budget = 1200 if quick else 6 * 3600
    for name, pre, n, alpha, suf in fams:
        H = Manifest(I, pre, n, alpha, suf)
        ex = M.explore(I, H, jobs=ctx.jobs, time_budget=budget, keep_all=True)
        fname = 'loader: %s, %d symbolic bytes%s' % (name, n, '' if alpha is None else ' over the syntax alphabet')
        outcomes = {}
        for s in ex.all_summaries:
            outcomes[s] = outcomes.get(s, 0) + 1
        merge_cov(cov, fname, ex, {'outcomes': outcomes})
        finish_exploration(out, ex, fname)
        for key, lst in ex.failures.items():
            for desc, model, extra in lst[:2]:
                if model is None:
                    out.inconclusive.append('%s: failure without model: %s' % (fname, desc))
                    continue
                text = H.concrete(model)
                if key == 'diagnostic-shape':
                    ans = rep.ask('load ' + hexs(text))
                    bad = not re.match(r'^err ', ans) or b'^\n' not in bytes.fromhex(ans[4:] if ans.startswith('err ') else '')
                    detail = ans[:200]
                else:
                    bad, detail = native_manifest(rep, text)
                out.add(Violation('M:load:' + key, '%s; manifest %r -> %s' % (desc, text, detail),
                                  replay={'cmd': 'load', 'bytes_hex': text.hex(), 'native': detail}, reproduced=bad))
        samples += [{'family': fname, 'outcomes': outcomes}]
    # bindings that refer to each other
    H = Bindings(I)
    ex = M.explore(I, H, jobs=ctx.jobs, time_budget=budget, keep_all=True)
    fname = 'loader: rule and build bindings referring to each other (%d references ^ 4 x 3 binding names)' % len(Bindings.REFS)
    merge_cov(cov, fname, ex)
    finish_exploration(out, ex, fname)
    for key, lst in ex.failures.items():
        for desc, model, extra in lst[:2]:
            text = H.concrete(model or {})
            bad, detail = native_manifest(rep, text)
            out.add(Violation('M:bindings:' + key, '%s; manifest %r -> %s' % (desc, text, detail),
                              replay={'cmd': 'load', 'bytes_hex': text.hex(), 'native': detail}, reproduced=bad))
    # error excerpt arithmetic
    texts = []
    for ln in ((30, 39, 40, 41, 45, 59, 60, 61, 62, 81, 100) if quick else range(0, 121)):
        texts.append(b'a' * ln)
        texts.append((b'a' * 7 + b'\xc3\xa9') * (ln // 9 + 1))
        texts.append(b'x\n' + b'b' * ln + b'\nyy')
    for t in texts:
        H = Excerpt(I, t)
        ex = M.explore(I, H, jobs=1)
        fname = 'format_parse_error, line length %d, symbolic error offset' % len(t)
        merge_cov(cov, fname, ex)
        finish_exploration(out, ex, fname)
        for key, lst in ex.failures.items():
            desc, model, extra = lst[0]
            ofs = (model or {}).get('ofs', 0)
            # native: a manifest whose error lands at that offset cannot be forced in general; replay through the facade
            ans = rep.ask('excerpt %s %d' % (hexs(t), ofs))
            bad = ans.startswith('PANIC') or ans.startswith('ABORT')
            out.add(Violation('M:excerpt:' + key, '%s; line of %d bytes, error offset %d -> %s' % (desc, len(t), ofs, ans[:160]),
                              replay={'cmd': 'excerpt', 'bytes_hex': t.hex(), 'ofs': ofs}, reproduced=bad))
    # command-line target strings
    for n in ((0, 1, 2, 3, 4) if quick else (0, 1, 2, 3, 4, 5, 6)):
        H = Target(I, n)
        ex = M.explore(I, H, jobs=ctx.jobs if n > 3 else 1)
        fname = 'target string of %d symbolic bytes -> to_owned_canon_path' % n
        merge_cov(cov, fname, ex)
        finish_exploration(out, ex, fname)
        for key, lst in ex.failures.items():
            desc, model, extra = lst[0]
            text = L.model_bytes(model or {}, n)
            ans = rep.ask('canon ' + hexs(text))
            bad = ans.startswith('PANIC') or ans.startswith('ABORT')
            out.add(Violation('M:target:' + key, '%s; target %r -> %s' % (desc, text, ans[:160]),
                              replay={'cmd': 'canon', 'bytes_hex': text.hex()}, reproduced=bad))
    for k in (59, 60, 61):
        H = DeepPath(I, k)
        ex = M.explore(I, H, jobs=1)
        fname = 'path of %d components' % (k + 1)
        merge_cov(cov, fname, ex)
        finish_exploration(out, ex, fname)
        for key, lst in ex.failures.items():
            text = b'a/' * k + b'a'
            ans = rep.ask('canon ' + hexs(text))
            bad = ans.startswith('PANIC') or ans.startswith('ABORT')
            out.add(Violation('M:deep-path:' + key, '%s; %d components -> %s' % (lst[0][0], k + 1, ans[:160]),
                              replay={'cmd': 'canon', 'bytes_hex': text.hex()}, reproduced=bad))
    # depfiles: totality of read_depfile (C15's harness, smaller bound)
    from checks import C15
    for n in ((1, 2, 3, 4) if quick else (1, 2, 3, 4, 5, 6)):
        H = C15.Harness(I, n, None)
        H.allow_cr = True
        ex = M.explore(I, H, jobs=ctx.jobs)
        fname = 'read_depfile on %d symbolic bytes' % n
        merge_cov(cov, fname, ex)
        finish_exploration(out, ex, fname)
        for key, lst in ex.failures.items():
            if key in ('accepts-malformed', 'rejects-wellformed', 'deps-differ', 'error-without-depfile-name'):
                continue  # C15's subject
            desc, model, extra = lst[0]
            bs = C15.model_bytes(model or {}, n)
            ans = rep.ask('depfile ' + hexs(bs))
            bad = ans.startswith('PANIC') or ans.startswith('ABORT')
            out.add(Violation('M:depfile:' + key, '%s; depfile %r -> %s' % (desc, bs, ans[:160]),
                              replay={'cmd': 'depfile', 'bytes_hex': bs.hex()}, reproduced=bad))
    rep.close()
    # K: leaf scanners with real memory
    hs = ['parse::verif_kani::' + h for h in ('o_read_escape_8', 'o_read_ident_8', 'o_read_simple_varname_8', 'o_skip_comment_8',
                                              'o_skip_spaces_8', 'o_scanner_prims_8')] + \
         ['depfile::verif_kani::' + h for h in ('o_skip_spaces_8', 'o_read_path_8')]
    ks = run_k(ctx, out, hs, timeout=900 if quick else 3600, jobs=min(len(hs), ctx.jobs))
    cov.update({
        'explanation': 'bounded symbolic execution: (M) mirsym runs the real MIR of the whole manifest loader, of '
                       'format_parse_error, to_owned_canon_path and read_depfile on symbolic bytes / offsets; every '
                       'index, unchecked access, str boundary, overflow assert and panic site is an obligation decided '
                       'by z3 on every path; (K) Kani/CBMC re-checks the leaf scanners with real memory semantics from '
                       'a symbolic start offset.  Failing obligations are replayed natively (debug build, UB checks on).',
        'kani_harnesses': ks,
        'evaluations': cov.get('paths', 0) + len(ks), 'distinct_nontrivial': cov.get('paths', 0) + len(ks),
        'rule': 'one evaluation = one feasible path class closed by the solver (M) or one Kani harness verdict (K)',
        'samples': samples[:10] + [{'kani': k['harness'], 'status': k['status']} for k in ks[:4]],
        'native_replays': rep.count,
        'outside_the_claim': ['inputs longer than the per-family symbolic byte counts (long lines only through the excerpt family)',
                              'include/subninja targets that exist (the included text goes through the same Parser::read)',
                              'non-UTF-8 bytes carried inside String (documented n2 design choice; library-level UB by reading)'],
    })
    out.assumptions += ['std models listed under std_models_used', 'Kani/CBMC memory model for the K harnesses',
                        'K assumes / M guarantees: the scanner never rests on the LF of a CR LF pair at entry of a leaf reader']


def replay(ctx, cex):
    rep = Replayer(ctx.tree)
    r = cex['replay']
    if r.get('cmd') == 'excerpt':
        ans = rep.ask('excerpt %s %d' % (r['bytes_hex'] or '-', r['ofs']))
    else:
        ans = rep.ask('%s %s' % (r.get('cmd', 'load'), r.get('bytes_hex') or '-'))
    bad = ans.startswith('PANIC') or ans.startswith('ABORT')
    print(('REPRODUCED: ' if bad else 'NOT-REPRODUCED: ') + ans[:300])
    return 1 if bad else 0
