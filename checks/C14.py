"""C14 - each file has at most one producing step.

K part: BuildOuts::remove_duplicates (real code, real Vec) on all id vectors of length n over n ids
with a symbolic explicit count, against an in-harness oracle.
M part (added when the loader harness exists): Graph::add_build twice on symbolic output slots.
"""
from lib.kcheck import run_k

LEVEL = 'other'


def run(ctx, out):
    run_m(ctx, out)
    ns = [2, 3, 4] if ctx.quick() else [2, 3, 4, 5]
    hs = ['graph::verif_kani::dedup_%d' % n for n in ns]
    ks = run_k(ctx, out, hs, timeout=600 if ctx.quick() else 2400)
    out.coverage.update({
        'explanation': 'bounded symbolic execution with Kani/CBMC of the real BuildOuts::remove_duplicates: for each '
                       'n, ALL id vectors in {0..n-1}^n and ALL explicit counts 0..n are covered by one SAT query per '
                       'harness (unwinding assertions on); the assertion compares with a first-occurrence oracle.',
        'functions_encoded': ['graph::BuildOuts::remove_duplicates'],
        'bounds': {'vector_length': ns, 'ids': 'raw[i] < n', 'explicit': '0..=n'},
        'kani_harnesses': ks,
        'obligations': sum(k['checks'] for k in ks),
        'discharged': sum(k['checks'] for k in ks if k['status'] == 'PASS'),
        'solver_s': round(sum(k['solver_s'] for k in ks), 1),
        'evaluations': len(ks) + out.coverage.get('paths', 0), 'distinct_nontrivial': len(ks) + out.coverage.get('paths', 0),
        'rule': 'one Kani harness per vector length; each is a single solver verdict over all inputs of that length',
        'samples': [{'harness': k['harness'], 'status': k['status'], 'checks': k['checks']} for k in ks],
        'outside_the_claim': ['vectors longer than %d outputs' % max(ns)],
    })
    out.assumptions += ['Kani/CBMC model of Vec and the allocator', 'ids restricted to n distinct values (w.l.o.g.: only equality of ids is observed)']


# ---------------------------------------------------------------------------------------------------- engine M part
import re as _re

import mirsym as M
from lib.mcheck import Replayer, load_interp
from checks import manifestlib as ML
from checks.manifestlib import B, Loaded, ManifestHarness, Text, bytes_eq, show
from checks.C10 import run_family, LL_msg

SPELL = {0: lambda n: B(n), 1: lambda n: B('./') + B(n), 2: lambda n: B('x/../') + B(n), 3: lambda n: B(n)}


class Duplicates(ManifestHarness):
    """outputs repeated inside one statement (any multiplicity / position / spelling) and across two statements"""

    def generate(self, I):
        n = 2 + I.choose('nouts', self.max_extra)         # 2..4 output slots
        names = [['a', 'b'][I.choose('out%d' % k, 2)] for k in range(n)]
        spell = [I.choose('sp%d' % k, self.nspell) for k in range(n)]
        nexp = 1 + I.choose('nexplicit', n)               # 1..n explicit, rest implicit
        # 0 none | 1 other file | 2 same file as explicit output | 3 same file, other spelling, second position
        # 4 same file as IMPLICIT output | 5 implicit, other spelling | 6 the first statement's LAST output (implicit there when nexp < n) as implicit output
        second = I.choose('second', 7)
        shared = names[-1] if second == 6 else names[0]
        t = Text().add('rule r\n  command = c\n').add('build')
        for k in range(n):
            if k == nexp:
                t.add(' |')
            t.add(' ').add(SPELL[spell[k]](names[k]))
        t.add(': r i\n')
        if second == 1:
            t.add('build z: r j\n')
        elif second == 2:
            t.add('build ').add(names[0]).add(': r j\n')
        elif second == 3:
            t.add('build w ./').add(names[0]).add(': r j\n')
        elif second == 4:
            t.add('build w | ').add(names[0]).add(': r j\n')
        elif second == 5:
            t.add('build w | ./').add(names[0]).add(': r j\n')
        elif second == 6:
            t.add('build w | ').add(names[-1]).add(': r j\n')
        first = []
        for k, nm in enumerate(names):
            if nm not in [x for x, _ in first]:
                first.append((nm, k))
        want_outs = [B(nm) for nm, _ in first]
        want_explicit = sum(1 for nm, k in first if k < nexp)
        nrepeats = n - len(first)

        def expect(I, r):
            ex = self.extra()
            if second >= 2:
                if r.variant == 'Ok':
                    I.fail('second-producer-accepted', 'two build statements produce %r and the manifest is accepted' % shared, extra=ex)
                msg = ML.LL.msg_bytes(r.fields[0])
                if not (_re.search(rb'build\.ninja:4', msg) and _re.search(rb'build\.ninja:3', msg) and shared.encode() in msg and b'already an output' in msg):
                    I.fail('second-producer-message', 'the error does not cite the file and both statements: %r' % msg[:160], extra=ex)
                return 'rejected'
            if r.variant != 'Ok':
                I.fail('rejected', 'a manifest repeating an output inside one statement is rejected: %r' % LL_msg(r), extra=ex)
            ld = Loaded(self.L, r.fields[0])
            b = ld.build(0)
            if not b['explicit_count_ok']:
                I.fail('explicit-count', 'explicit output count exceeds the number of outputs', extra=ex)
            got = b['explicit_outs'] + b['implicit_outs']
            if [show(x) for x in got] != [show(x) for x in want_outs]:
                I.fail('outputs-not-deduplicated', 'outputs %r, expected each file once in first-occurrence order %r' % ([show(x) for x in got], [show(x) for x in want_outs]), extra=ex)
            if len(b['explicit_outs']) != want_explicit:
                I.fail('explicit-count', '%d explicit outputs, expected %d' % (len(b['explicit_outs']), want_explicit), extra=ex)
            warns = [w for w in self.stdout if b'is repeated in output list' in w]
            if len(warns) != nrepeats:
                I.fail('warnings', '%d repeat warnings printed for %d repeats: %r' % (len(warns), nrepeats, self.stdout), extra=ex)
            return 'ok'
        return t.bs, {}, expect


def run_m(ctx, out):
    I = load_interp(ctx)
    rep = Replayer(ctx.tree)
    H = Duplicates(I, ctx.tree)
    H.max_extra, H.nspell = (2, 2) if ctx.quick() else (3, 3)
    run_family(ctx, out, I, rep, H, 'M: repeated outputs within one statement and across two (spellings x multiplicity x explicit/implicit boundary)')
    rep.close()


def replay(ctx, cex):
    r = cex['replay']
    if 'cmd' in r:
        from checks.C10 import replay as rp
        return rp(ctx, cex)
    from lib import kani
    rep, detail = kani.replay_native(ctx.tree, r['harness'])
    print(('REPRODUCED: ' if rep else 'NOT-REPRODUCED: ') + str(detail))
    return 1 if rep else 0
