"""C14 - each file has at most one producing step.

K part: BuildOuts::remove_duplicates (real code, real Vec) on all id vectors of length n over n ids
with a symbolic explicit count, against an in-harness oracle.
M part (added when the loader harness exists): Graph::add_build twice on symbolic output slots.
"""
from lib.kcheck import run_k

LEVEL = 'other'


def run(ctx, out):
    ns = [2, 3, 4] if ctx.quick() else [2, 3, 4, 5]
    hs = ['graph::verif_kani::dedup_%d' % n for n in ns]
    ks = run_k(ctx, out, hs, timeout=600 if ctx.quick() else 2400)
    out.coverage.update({
        'explanation': 'bounded symbolic execution with Kani/CBMC of the real BuildOuts::remove_duplicates: for each '
                       'n, ALL id vectors in {0..n-1}^n and ALL explicit counts 0..n are covered by one SAT query per '
                       'harness (unwinding assertions on); the assertion compares with a first-occurrence oracle.',
        'functions_encoded': ['graph::BuildOuts::remove_duplicates'],
        'bounds': {'vector_length': ns, 'ids': 'raw[i] < n', 'explicit': '0..=n'},
        'kani_harnesses': ks,
        'obligations': sum(k['checks'] for k in ks),
        'discharged': sum(k['checks'] for k in ks if k['status'] == 'PASS'),
        'solver_s': round(sum(k['solver_s'] for k in ks), 1),
        'evaluations': len(ks), 'distinct_nontrivial': len(ks),
        'rule': 'one Kani harness per vector length; each is a single solver verdict over all inputs of that length',
        'samples': [{'harness': k['harness'], 'status': k['status'], 'checks': k['checks']} for k in ks],
        'outside_the_claim': ['vectors longer than %d outputs' % max(ns)],
    })
    out.assumptions += ['Kani/CBMC model of Vec and the allocator', 'ids restricted to n distinct values (w.l.o.g.: only equality of ids is observed)']
