"""C17 - an out-of-date manifest is regenerated and reloaded before anything else.

Engine M, run harness (checks/runlib.py): the real run::run_impl / run::build / Work::* with load::read handing out
two independently drawn manifest generations (steps renamed, removed, renumbered; default list and pool depth
changed), symbolic dirty bits per (generation, step), scripted executor, targets and -f spelling drawn symbolically.
Obligations: the manifest phase examines only the generator's closure; the manifest is loaded again exactly when a
command ran for it; afterwards every examined / started step belongs to the NEW generation and targets, defaults and
pools are the new text's; a failed regeneration stops everything with a non-zero exit; an up-to-date manifest is not
regenerated, not reloaded, and steps settled while checking it are not examined again.
"""
from checks import runlib as R

LEVEL = 'model_checking'


def run(ctx, out):
    G = {'C17', 'C18', 'C04', 'C05', 'C19'}
    ex = R.run_run(ctx, out, 'C17', G, report=G)
    # the same harness with the REAL load::read parsing manifest text (only file reading and the log file are modelled)
    if ctx.quick():
        ex2 = R.run_run(ctx, out, 'C17', G, report=G, real_read=True, g1s=('plain',), g2s=('same', 'renamed', 'grown2'))
        # the manifest split over an included file that the generator rewrites (the top-level file never changes)
        ex3 = R.run_run(ctx, out, 'C17', G, report=G, real_read=True, g1s=('plain',), g2s=('renamed',), layouts=('inc',))
    else:
        ex2 = R.run_run(ctx, out, 'C17', G, report=G, real_read=True, g2s=('same', 'renamed', 'default', 'pooled', 'grown', 'grown2'))
        ex3 = R.run_run(ctx, out, 'C17', G, report=G, real_read=True, g2s=('same', 'renamed', 'grown2'), layouts=('inc',))
    ex2.paths += ex3.paths
    ex2.queries += ex3.queries
    ex.paths += ex2.paths
    ex.queries += ex2.queries
    cov = out.coverage
    cov.update({
        'states': ex.paths, 'transitions': ex.queries, 'traces_validated_against_impl': len(ex.failures),
        'samples': cov.get('samples') or [{'note': 'no path closed'}],
        'explanation': 'states = path classes over (generation-1 variant x generation-2 variant x targets x -f spelling x dirty bits x schedule x outcomes)',
        'bounds': {'generation 1': list(R.G1_VARIANTS), 'generation 2': list(R.GEN2), 'targets': R.TARGETS, 'filenames': [None, './build.ninja']},
        'outside_the_claim': ['the generator\'s real effect on disk (modelled: the k-th load sees generation k, in build.ninja itself or in an included all.ninja)',
                              'histories of several invocations'],
    })
    out.assumptions += ['load::read modelled (returns generation k on its k-th call; the manifest itself is file 0 as in the real loader)',
                        'S-cut scheduler environment; parse_args modelled']


def replay(ctx, cex):
    nat = R.native_run(ctx.tree, cex['replay']['extra'], cex['replay']['model'])
    print('native: %r' % (nat,))
    print('REPRODUCED' if nat and nat.get('confirms') else 'NOT-REPRODUCED')
    return 1 if nat and nat.get('confirms') else 0
