"""One-step dirty-check kernel shared by C02 / C03 / C09 (engine M).

Real MIR: Work::check_build_dirty, check_build_files_missing, ensure_input_files, stat_all_outputs, FileState::*,
hash::hash_build, build_manifest::<TerseHash>, TerseHash::*, get_fileid_status, <RspFile as Hash>::hash.
Environment: graph::stat = symbolic file system; DefaultHasher = recording hasher (checks/dirtylib.py).

One step `out out2: cc in | imp || oo |@ val` with an optional discovered dependency list, a command line and a
response file whose text contain symbolic bytes.  The record is produced by the real hash_build over a RECORDED file
state on a graph whose files are numbered differently from the current one; the current file state (mtimes, missing
flags), command byte, response file and the name of the explicit input are independent symbolic values.
Oracle: clean  <=>  a record exists, no dirtying input / discovered dep / output is missing, and names, mtimes of
those files, command line and response file are all equal to the recorded ones.  Order-only and validation inputs
never matter.  A missing dirtying SOURCE input is the only permitted error.
"""
import z3

import mirsym as M
from mirsym import Agg, BoolV, Cell, IntV, Opaque, Ref, none, ok, some, usize, vec, string
from mirsym.build import Layout, World, buildid, fileid, dm_items, hashmap, densemap
from checks import dirtylib as D
from checks import dblib

FILES = ['in', 'imp', 'oo', 'val', 'disc', 'out', 'out2']
DSETS = [(), ('disc',), ('oo',), ('disc', 'in')]


class Kernel:
    def __init__(self, I, tree, groups):
        self.L = Layout(tree.path)
        self.groups = groups
        self.fn_check = I.fn('check_build_dirty', 'work.rs')
        self.fn_hash = I.fn('hash_build', 'hash.rs')
        self.fn_setdisc = I.fn('set_discovered_ins', 'graph.rs')
        self.hashes = []
        self.fs = None
        I.set_overrides(D.hasher_models(self) + D.fs_models(self))

    def world(self, order, explicit_name, cmd_byte, rsp, dset):
        L = self.L
        w = World(L)
        for n in order:
            w.file(n)
        f = {n: w.file(n) for n in FILES + ['in2']}
        rspv = None
        if rsp is not None:
            rspv = L.mk('RspFile', path=Agg('PathBuf', [string(b'r.rsp')]), content=M.string_of([IntV(8, 64), rsp]))
        w.add_build([f['out'], f['out2']], explicit=[f[explicit_name]], implicit=[f['imp']], order_only=[f['oo']],
                    validation=[f['val']], cmdline=M.string_of([IntV(8, 99), IntV(8, 99), IntV(8, 32), cmd_byte]),
                    rspfile=rspv, discovered=[])
        return w, f

    def set_discovered(self, I, g, f, dset):
        """the discovered list goes through the REAL Build::set_discovered_ins, as in the process that recorded the
        step (record_finished) and in the one that loads the record (db read_build): both hand over the names in the
        reported = recorded order, whatever their numbering in that process"""
        b = dm_items(self.L.get(g, 'builds'))[0]
        I.call_fn(self.fn_setdisc, [Ref(Cell(b), ()), vec(fileid(f[d]) for d in dset)])

    def run_path(self, I):
        L = self.L
        self.hashes = []
        have_record = I.choose('have_record', 2) == 1
        dset = DSETS[I.choose('discovered', len(DSETS))]
        renamed = I.choose('input_renamed', 2) == 1
        rsp_rec = [None, I.fresh_int('rsp_rec', 8)][I.choose('rsp_rec_present', 2)]
        rsp_cur = [None, I.fresh_int('rsp_cur', 8)][I.choose('rsp_cur_present', 2)]
        x_rec, x_cur = I.fresh_int('cmd_rec', 8), I.fresh_int('cmd_cur', 8)
        # recorded state
        rec = D.FS()
        cur = D.FS()
        for n in FILES + ['in2']:
            rec.fresh(I, n, 'rec', can_miss=False)
            cur.fresh(I, n, 'cur', can_miss=True)
            for fs_, tag in ((rec, 'rec'), (cur, 'cur')):
                I.solver.add(z3.ULT(fs_.files[n.encode() if False else n][1].v, 1 << 31))
        rec.files = {k.encode(): v for k, v in rec.files.items()}
        cur.files = {k.encode(): v for k, v in cur.files.items()}
        hashes = Agg('Hashes', [hashmap()])
        if have_record:
            w1, f1 = self.world(['out2', 'disc', 'in'], 'in', x_rec, rsp_rec, dset)
            g1 = w1.graph()
            self.set_discovered(I, g1, f1, dset)
            fsr = L.mk('FileState', **{'0': None}) if False else Agg('FileState', [densemap(
                [some(D.stamp(rec.files[nm][1], rec.files[nm][2])) for nm in w1.names])])
            b1 = dm_items(L.get(g1, 'builds'))[0]
            h = I.call_fn(self.fn_hash, [Ref(Cell(L.get(g1, 'files')), ()), Ref(Cell(fsr), ()), Ref(Cell(b1), ())])
            hashes = Agg('Hashes', [hashmap([(buildid(0), h)])])
        # current state
        w2, f2 = self.world([], 'in2' if renamed else 'in', x_cur, rsp_cur, dset)
        g2 = w2.graph()
        self.set_discovered(I, g2, f2, dset)
        self.fs = cur
        fsc = Agg('FileState', [densemap([none() for _ in w2.names])])
        opts = L.mk('Options', failures_left=none(), parallelism=usize(1), explain=BoolV(False), adopt=BoolV(False))
        work = L.mk('Work', graph=g2, db=Opaque('db'), progress=Opaque('progress'), options=opts, file_state=fsc,
                    last_hashes=hashes, build_states=Opaque('bs'), tasks_run=usize(0))
        res = I.call_fn(self.fn_check, [Ref(Cell(work), ()), buildid(0)])
        # ---- oracle
        expl = b'in2' if renamed else b'in'
        relevant = [expl, b'imp'] + [d.encode() for d in dset] + [b'out', b'out2']
        miss = {n: cur.files[n][0] for n in relevant}
        any_missing = z3.Or([m.z() for m in miss.values()])
        same = z3.And([D.mtime_eq(rec.files[n], cur.files[n]) for n in relevant])
        text_same = x_rec.z() == x_cur.z()
        if (rsp_rec is None) != (rsp_cur is None):
            rsp_same = z3.BoolVal(False)
        elif rsp_rec is None:
            rsp_same = z3.BoolVal(True)
        else:
            rsp_same = rsp_rec.z() == rsp_cur.z()
        up_to_date = z3.And(z3.BoolVal(have_record), z3.Not(any_missing), same, text_same, rsp_same, z3.BoolVal(not renamed))
        extra = self.extra(I, have_record, dset, renamed)
        if res.variant == 'Err':
            msg = M.models.anyhow_text(I, res.fields[0]) or b''
            src_missing = z3.Or(cur.files[expl][0].z(), cur.files[b'imp'][0].z())
            if 'C09' in self.groups or 'C02' in self.groups:
                I.oblige(BoolV(src_missing) if not isinstance(src_missing, bool) else BoolV(src_missing), 'error-without-missing-source',
                         'check_build_dirty fails (%r) although no declared dirtying source input is missing' % msg[:80], extra=extra)
            return 'err'
        dirty = res.fields[0].v
        if dirty is False:
            if 'C02' in self.groups:
                I.oblige(I._boolv(up_to_date), 'stale-skip', 'step judged up to date although its record is absent, a relevant file is missing, '
                         'or a dirtying input / discovered dep / output mtime, the command line or the response file differs', extra=extra)
        else:
            if 'C03' in self.groups:
                I.oblige(I._boolv(z3.Not(up_to_date)), 'needless-rerun', 'step judged dirty although record, names, mtimes of dirtying inputs, discovered '
                         'deps and outputs, command line and response file are all unchanged (order-only / validation inputs differ at most)', extra=extra)
        return 'dirty' if dirty else 'clean'

    def extra(self, I, have_record, dset, renamed):
        return {'have_record': have_record, 'dset': list(dset), 'renamed': renamed}


def native_cmd(model, extra):
    """dirty1 <have_record> <dset,> <renamed> <cmd_rec> <cmd_cur> <rsp_rec|-> <rsp_cur|-> then per file rec:cur"""
    def g(k, d=0):
        return model.get(k, d)
    rsp_rec = str(g('rsp_rec')) if g('rsp_rec_present') == 1 else '-'
    rsp_cur = str(g('rsp_cur')) if g('rsp_cur_present') == 1 else '-'
    parts = []
    for n in FILES + ['in2']:
        parts.append('%s=%d.%d/%s%d.%d' % (n, g('rec_secs_' + n), g('rec_nanos_' + n), 'M' if g('cur_missing_' + n, False) else 'P',
                                           g('cur_secs_' + n), g('cur_nanos_' + n)))
    return 'dirty1 %d %s %d %d %d %s %s %s' % (1 if extra['have_record'] else 0, ','.join(extra['dset']) or '-', 1 if extra['renamed'] else 0,
                                                g('cmd_rec'), g('cmd_cur'), rsp_rec, rsp_cur, ' '.join(parts))


def expected(model, extra):
    """the oracle evaluated on concrete values -> 'clean' | 'dirty' | 'err'"""
    def g(k, d=0):
        return model.get(k, d)
    expl = 'in2' if extra['renamed'] else 'in'
    relevant = [expl, 'imp'] + list(extra['dset']) + ['out', 'out2']
    if g('cur_missing_' + expl, False) or g('cur_missing_imp', False):
        # a missing source: error unless an earlier-stat()ed... the real code reports the first missing dirtying input
        return 'err'
    if any(g('cur_missing_' + n, False) for n in relevant):
        return 'dirty'
    if not extra['have_record'] or extra['renamed']:
        return 'dirty'
    for n in relevant:
        if (g('rec_secs_' + n), g('rec_nanos_' + n)) != (g('cur_secs_' + n), g('cur_nanos_' + n)):
            return 'dirty'
    if g('cmd_rec') != g('cmd_cur'):
        return 'dirty'
    rr = g('rsp_rec') if g('rsp_rec_present') == 1 else None
    rc = g('rsp_cur') if g('rsp_cur_present') == 1 else None
    if rr != rc:
        return 'dirty'
    return 'clean'


def run_kernel(ctx, out, pid, groups):
    from lib.driver import Violation
    from lib.mcheck import Replayer, finish_exploration, load_interp, merge_cov
    I = load_interp(ctx)
    rep = Replayer(ctx.tree)
    H = Kernel(I, ctx.tree, groups)
    ex = M.explore(I, H, jobs=ctx.jobs, time_budget=1200 if ctx.quick() else 3 * 3600, keep_all=True)
    name = 'one-step dirty-check kernel (symbolic record, file system, command and response-file text)'
    outcomes = {}
    for s in ex.all_summaries:
        outcomes[s] = outcomes.get(s, 0) + 1
    merge_cov(out.coverage, name, ex, {'outcomes': outcomes})
    finish_exploration(out, ex, name)
    nvalid = 0
    for key, lst in ex.failures.items():
        for desc, model, extra in lst[:3]:
            if model is None or not extra:
                out.add(Violation('M:dirty:' + key, desc + ' (no model)', replay={}, reproduced=False))
                continue
            cmd = native_cmd(model, extra)
            ans = rep.ask(cmd)
            want = expected(model, extra)
            nvalid += 1
            got = 'err' if ans.startswith('Err') else ('dirty' if ans.startswith('Ok(true)') else ('clean' if ans.startswith('Ok(false)') else ans[:40]))
            out.add(Violation('M:dirty:' + key, '%s; `%s` -> native %s, the property requires %s' % (desc[:200], cmd, ans[:120], want),
                              replay={'cmd': cmd, 'want': want}, reproduced=(got != want)))
    rep.close()
    out.coverage['kernel_native_replays'] = nvalid
    return ex


def replay_kernel(ctx, cex):
    from lib.mcheck import Replayer
    rep = Replayer(ctx.tree)
    ans = rep.ask(cex['replay']['cmd'])
    want = cex['replay']['want']
    got = 'err' if ans.startswith('Err') else ('dirty' if ans.startswith('Ok(true)') else ('clean' if ans.startswith('Ok(false)') else ans[:40]))
    print(('REPRODUCED: ' if got != want else 'NOT-REPRODUCED: ') + 'native %s, required %s' % (ans[:200], want))
    return 1 if got != want else 0
