"""C04 - -j and pool depths are never exceeded.

Engine M, scheduler harness S-cut with pools: steps are assigned symbolically to {no pool, console, a declared pool p,
an undeclared pool q}; the depth of p and the -j value are unconstrained symbolic 64-bit values, so every comparison
`running < depth` / `running < parallelism` in the real code is decided by the solver.  At every command start the
monitor obliges: running commands <= -j; commands of p <= depth (depth 0 = unbounded); console <= 1; a step naming
the undeclared pool is never started and, once found dirty, makes run() return the `unknown pool` error.
"""
from checks import schedlib as S

LEVEL = 'model_checking'


def run(ctx, out):
    shapes = S.pool_families(ctx.tier) + [S.families(ctx.tier)[0], S.families(ctx.tier)[2]]
    S.run_check(ctx, out, 'C04', shapes, {'C04'})
    out.coverage.update({
        'explanation': 'states = path classes of (pool assignment x dirty bits x completion order x outcomes) with -j and the pool depth '
                       'symbolic; each start event carries the obligations on the running set',
        'bounds': {'steps': 3, 'pools': ['(none)', 'console', 'p (declared, symbolic depth)', 'q (undeclared)']},
        'outside_the_claim': ['more than 3 steps / one user pool', 'parsing of pool statements (C10)'],
    })
    out.assumptions += ['S-cut: symbolic dirty bits; scripted executor']


replay = S.replay_cex
