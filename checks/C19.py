"""C19 - progress counts match reality.

Engine M, scheduler harness S-cut with the Progress object as monitor: at every update(counts) the six counters
must equal the number of non-phony wanted steps actually in each state, Running must equal the number of commands
executing, Done+Failed never decreases, the total equals the number of non-phony wanted steps; at return tasks_run
equals the number of successful completions.  Engine K: StateCounts::add over symbolic counters (no wrap).
"""
from checks import schedlib as S
from checks import runlib as R
from lib.kcheck import run_k

LEVEL = 'model_checking'


def run(ctx, out):
    fams = S.families(ctx.tier)
    if ctx.quick():
        for f in fams:
            if f.name == 'diamond':
                f.roles = 'explicit'
            if f.name.startswith('two steps'):
                f.roles = 'ordval'
    S.run_check(ctx, out, 'C19', fams + S.pool_families(ctx.tier)[:1] + S.fault_families(ctx.tier), {'C19'}, outcomes=('Success', 'Failure'))
    R.run_run(ctx, out, 'C19', {'C19'})
    ks = run_k(ctx, out, ['work::verif_kani::statecounts_step'], timeout=600, jobs=1)
    out.coverage.update({
        'kani_harnesses': ks,
        'explanation': 'states = path classes; every Progress::update is an observation point with 8 obligations',
        'bounds': {'steps': '2-4'},
        'outside_the_claim': ['the rendering of the counts (C20)', 'the second phase of an invocation (C17 harness)'],
    })
    out.assumptions += ['S-cut: symbolic dirty bits; scripted executor', 'Kani/CBMC for StateCounts::add']


replay = S.replay_cex
