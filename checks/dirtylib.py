"""M harness pieces for dirty checking (C02, C03, C09): a symbolic file system behind graph::stat and a RECORDING
hasher behind std's DefaultHasher (the hash value is a fresh 64-bit variable, equal to an earlier hash iff the
recorded byte streams are equal - SipHash is assumed collision-free)."""
import z3

import mirsym as M
from mirsym import Agg, BoolV, Cell, IntV, Opaque, Ref, SliceRef, UNIT, err, none, ok, some, usize, vec, string
from mirsym.models import as_slice, elems, conc_bytes


def systime(secs, nanos):
    return Agg('SystemTime', [secs, nanos])


def stamp(secs, nanos):
    return Agg('MTime', [systime(secs, nanos)], 'Stamp')


def missing():
    return Agg('MTime', [], 'Missing')


class FS:
    """symbolic file system of one moment: name -> (missing BoolV, secs IntV(64, signed), nanos IntV(32))"""

    def __init__(self):
        self.files = {}
        self.stats = []    # names stat()ed, in order

    def set(self, name, miss, secs, nanos):
        self.files[name] = (miss, secs, nanos)

    def fresh(self, I, name, tag, can_miss=True):
        miss = I.fresh_bool('%s_missing_%s' % (tag, name)) if can_miss else BoolV(False)
        secs = I.fresh_int('%s_secs_%s' % (tag, name), 64, True)
        nanos = I.fresh_int('%s_nanos_%s' % (tag, name), 32)
        I.solver.add(z3.ULT(nanos.v, 1000000000))
        self.files[name] = (miss, secs, nanos)

    def copy(self):
        f = FS()
        f.files = dict(self.files)
        return f


def hasher_models(H):
    """H.hashes: list of (stream bytes, hash var) finished on this path"""

    def stream(I, hr):
        h = I.deref(hr)
        while isinstance(h, Agg) and h.kind != 'DefaultHasher':
            h = h.fields[0]
        return h.fields[0].fields

    def m_new(I, args, callee):
        return Agg('DefaultHasher', [Agg('stream', [])])

    def m_hash_str(I, args, callee):
        s = as_slice(I, args[0])
        st = stream(I, args[1])
        st.extend(elems(I, s))
        st.append(IntV(8, 0xff))     # str::hash terminator
        return UNIT

    def m_hash_path(I, args, callee):
        s = as_slice(I, args[0])
        st = stream(I, args[1])
        st.extend(elems(I, s))
        st.append(IntV(8, 0xfe))     # component-wise hashing of Path, modelled as bytes + a distinct terminator
        return UNIT

    def m_hash_systemtime(I, args, callee):
        t = I.deref(args[0]) if isinstance(args[0], Ref) else args[0]
        st = stream(I, args[1])
        for v, w in ((t.fields[0], 64), (t.fields[1], 32)):
            for i in range(w // 8):
                st.append(IntV(8, (v.v >> (8 * i)) & 0xff) if v.conc() else IntV(8, z3.Extract(8 * i + 7, 8 * i, v.v)))
        return UNIT

    def m_hash_int(I, args, callee):
        v = I.deref(args[0]) if isinstance(args[0], Ref) else args[0]
        if isinstance(v, Agg) and len(v.fields) == 1:
            v = v.fields[0]
        st = stream(I, args[1])
        for i in range(v.w // 8):
            st.append(IntV(8, (v.v >> (8 * i)) & 0xff) if v.conc() else IntV(8, z3.Extract(8 * i + 7, 8 * i, v.v)))
        return UNIT

    def m_write_u8(I, args, callee):
        stream(I, args[0]).append(args[1])
        return UNIT

    def m_write(I, args, callee):
        stream(I, args[0]).extend(elems(I, as_slice(I, args[1])))
        return UNIT

    def m_finish(I, args, callee):
        st = list(stream(I, args[0]))
        hv = I.fresh('hashval%d' % len(H.hashes), 64)
        for other, ov in H.hashes:
            if len(other) != len(st):
                I.solver.add(ov != hv)
                continue
            eqs = []
            differ = False
            for a, b in zip(other, st):
                if a.conc() and b.conc():
                    if a.v != b.v:
                        differ = True
                        break
                else:
                    eqs.append(a.z() == b.z())
            if differ:
                I.solver.add(ov != hv)
            else:
                I.solver.add((ov == hv) == (z3.And(eqs) if eqs else z3.BoolVal(True)))
        H.hashes.append((st, hv))
        return IntV(64, hv)

    return [
        (r'^<(std::hash::)?DefaultHasher as Default>::default$|^(std::hash::)?DefaultHasher::new$', m_new),
        (r'^<(str|String) as Hash>::hash::<', m_hash_str),
        (r'^<(PathBuf|Path) as Hash>::hash::<', m_hash_path),
        (r'^<SystemTime as Hash>::hash::<', m_hash_systemtime),
        (r'^<(u8|u16|u32|u64|usize|i64|graph::FileId|FileId|graph::BuildId|BuildId) as Hash>::hash::<', m_hash_int),
        (r'^<(std::hash::)?DefaultHasher as Hasher>::write_u8$', m_write_u8),
        (r'^<(std::hash::)?DefaultHasher as Hasher>::write$', m_write),
        (r'^<(std::hash::)?DefaultHasher as Hasher>::finish$', m_finish),
    ]


def fs_models(H):
    """H.fs: the FS consulted by graph::stat on this path"""

    def m_stat(I, args, callee):
        name = conc_bytes(I, as_slice(I, args[0]))
        if name is None:
            raise M.Unsupported('stat of a symbolic path')
        ent = H.fs.files.get(name)
        H.fs.stats.append(name)
        if ent is None:
            return ok(missing())
        miss, secs, nanos = ent
        if I.branch_bool(miss):
            return ok(missing())
        return ok(stamp(secs, nanos))

    def m_file_path(I, args, callee):
        f = I.deref(args[0])
        return as_slice(I, f.fields[0])

    return [(r'^(graph::)?stat$', m_stat), (r'^(graph::)?File::path$', m_file_path)]


def mtime_eq(a, b):
    """z3: two (miss, secs, nanos) entries denote the same present mtime"""
    return z3.And(a[1].z() == b[1].z(), a[2].z() == b[2].z())
