"""C13 - different spellings of one path are one graph node.

K part: canonicalize_path (real code incl. the unsafe blocks) for ALL strings of a concrete length n over
{a, b, '.', '/', '\\', 0xC3}: memory safety of the three assert_unchecked / set_len / MaybeUninit stack,
1 <= len <= n, idempotence, and equality with an independent reference model (spec in hooks/canon.rs).
M part (added with the loader harness): two spellings with equal canonical form resolve to one FileId.
"""
from lib.kcheck import run_k

LEVEL = 'other'


def run(ctx, out):
    if ctx.quick():
        safe, full = range(1, 7), range(1, 5)
        timeout = 900
    else:
        safe, full = range(1, 11), range(1, 9)
        timeout = 3 * 3600
    hs = ['canon::verif_kani::canon_full_%d' % n for n in reversed(full)] + \
         ['canon::verif_kani::canon_safe_%d' % n for n in reversed(safe)] + \
         ['canon::verif_kani::stackstack_step']
    ks = run_k(ctx, out, hs, timeout=timeout, jobs=min(len(hs), ctx.jobs), mem_gb=14)
    out.coverage.update({
        'explanation': 'bounded symbolic execution with Kani/CBMC of the real canonicalize_path (in-place algorithm, '
                       'unsafe blocks included): one harness per concrete length n decides, for ALL 6^n strings over '
                       '{a,b,.,/,\\,0xC3}, (1) no UB/panic, (2) 1<=len<=n, and for the "full" harnesses (3) idempotence '
                       'and (4) byte equality with an independent reference model; unwinding assertions on; a '
                       'kani::cover! witness per harness guards against vacuity.',
        'functions_encoded': ['canon::canonicalize_path', 'canon::StackStack::{new,push,pop}'],
        'bounds': {'safe_lengths': list(safe), 'full_lengths': list(full), 'alphabet': 'a b . / \\ 0xC3',
                   'stack_capacity_instance': 4},
        'kani_harnesses': ks,
        'obligations': sum(k['checks'] for k in ks),
        'discharged': sum(k['checks'] for k in ks if k['status'] == 'PASS'),
        'solver_s': round(sum(k['solver_s'] for k in ks), 1),
        'evaluations': len(ks), 'distinct_nontrivial': len(ks),
        'rule': 'one Kani harness per path length and obligation set; each is a single solver verdict over all strings of that length',
        'samples': [{'harness': k['harness'], 'status': k['status'], 'checks': k['checks'], 'covers': k['covers']} for k in ks],
        'outside_the_claim': ['paths longer than the stated lengths', 'more than 60 components (property precondition)',
                              'bytes other than the six-letter alphabet (the code compares only against / \\ .)'],
    })
    out.assumptions += ['Kani/CBMC memory model', 'reference model spec_canon (hooks/canon.rs) is the meaning of "equivalent spelling"']
