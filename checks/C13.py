"""C13 - different spellings of one path are one graph node.

K part: canonicalize_path (real code incl. the unsafe blocks) for ALL strings of a concrete length n over
{a, b, '.', '/', '\\', 0xC3}: memory safety of the three assert_unchecked / set_len / MaybeUninit stack,
1 <= len <= n, idempotence, and equality with an independent reference model (spec in hooks/canon.rs).
M part (added with the loader harness): two spellings with equal canonical form resolve to one FileId.
"""
import mirsym as M
from mirsym import Agg, Cell, IntV, Ref, SliceRef
from mirsym.models import as_slice, elems, val_eq
from lib.driver import Violation
from lib.kcheck import run_k
from lib.mcheck import Replayer, finish_exploration, hexs, load_interp, merge_cov

LEVEL = 'other'


class CanonDiff:
    """canonicalize_path vs the reference model spec_canon on n fully symbolic non-NUL bytes (engine M)"""

    def __init__(self, I, n):
        self.n = n
        self.canon = I.fn('canonicalize_path', 'canon.rs')
        self.spec = I.fn('spec_canon', 'canon.rs')
        I.set_overrides([])

    def run_path(self, I):
        bs = [I.fresh_int('b%d' % i, 8) for i in range(self.n)]
        for b in bs:
            I.solver.add(b.v != 0)
        s = M.string_of(list(bs))
        sc = Cell(s)
        I.call_fn(self.canon, [Ref(sc, ())])
        got = list(s.fields[0].fields)
        want = I.call_fn(self.spec, [SliceRef(Cell(Agg('bytes', list(bs))), (), 0, self.n)])
        if not (1 <= len(got) <= self.n):
            I.fail('canon-length', 'canonical form of a %d-byte path has %d bytes' % (self.n, len(got)))
        if len(got) != len(want.fields):
            I.fail('canon-differs', 'canonical form has %d bytes, the reference model gives %d' % (len(got), len(want.fields)))
        for g, w in zip(got, want.fields):
            I.oblige(I.binop('Eq', g, w), 'canon-differs', 'canonical form differs from the reference model')
        before = list(got)
        I.call_fn(self.canon, [Ref(sc, ())])
        again = s.fields[0].fields
        if len(again) != len(before):
            I.fail('canon-not-idempotent', 'canonicalising twice changes the length')
        for g, w in zip(again, before):
            I.oblige(I.binop('Eq', g, w), 'canon-not-idempotent', 'canonicalising twice changes the path')
        return len(got)


def run_m(ctx, out):
    I = load_interp(ctx)
    rep = Replayer(ctx.tree)
    cov = out.coverage
    for n in ((1, 2, 3, 4, 5, 6) if ctx.quick() else (1, 2, 3, 4, 5, 6, 7, 8)):
        H = CanonDiff(I, n)
        ex = M.explore(I, H, jobs=ctx.jobs, time_budget=1200 if ctx.quick() else 4 * 3600)
        name = 'M: canonicalize_path vs spec_canon, %d symbolic bytes (all non-NUL values)' % n
        merge_cov(cov, name, ex)
        finish_exploration(out, ex, name)
        for key, lst in ex.failures.items():
            for desc, model, extra in lst[:2]:
                bs = bytes((model or {}).get('b%d' % i, 97) for i in range(n))
                ans = rep.ask('canonspec ' + hexs(bs))
                bad = not ans.startswith('ok same')
                out.add(Violation('M:canon:' + key, '%s; path %r -> %s' % (desc, bs, ans[:200]),
                                  replay={'cmd': 'canonspec', 'bytes_hex': bs.hex()}, reproduced=bad))
    rep.close()


def run(ctx, out):
    run_m(ctx, out)
    # spellings of the manifest's own name (-f ./build.ninja) resolve to the manifest node: run harness with the real load::read
    from checks import runlib as R
    R.run_run(ctx, out, 'C13', {'C17'}, report={'C17'}, real_read=True, g1s=('plain',), g2s=('same',))
    if ctx.quick():
        safe, full = range(1, 7), range(1, 5)
        timeout = 900
    else:
        safe, full = range(1, 11), range(1, 9)
        timeout = 3 * 3600
    hs = ['canon::verif_kani::canon_full_%d' % n for n in reversed(full)] + \
         ['canon::verif_kani::canon_safe_%d' % n for n in reversed(safe)] + \
         ['canon::verif_kani::stackstack_step']
    ks = run_k(ctx, out, hs, timeout=timeout, jobs=min(len(hs), ctx.jobs), mem_gb=14)
    out.coverage.update({
        'explanation': 'bounded symbolic execution with Kani/CBMC of the real canonicalize_path (in-place algorithm, '
                       'unsafe blocks included): one harness per concrete length n decides, for ALL 6^n strings over '
                       '{a,b,.,/,\\,0xC3}, (1) no UB/panic, (2) 1<=len<=n, and for the "full" harnesses (3) idempotence '
                       'and (4) byte equality with an independent reference model; unwinding assertions on; a '
                       'kani::cover! witness per harness guards against vacuity.',
        'functions_encoded': ['canon::canonicalize_path', 'canon::StackStack::{new,push,pop}'],
        'bounds': {'safe_lengths': list(safe), 'full_lengths': list(full), 'alphabet': 'a b . / \\ 0xC3',
                   'stack_capacity_instance': 4},
        'kani_harnesses': ks,
        'obligations': sum(k['checks'] for k in ks),
        'discharged': sum(k['checks'] for k in ks if k['status'] == 'PASS'),
        'solver_s': round(sum(k['solver_s'] for k in ks), 1),
        'evaluations': len(ks) + out.coverage.get('paths', 0), 'distinct_nontrivial': len(ks) + out.coverage.get('paths', 0),
        'rule': 'one Kani harness per path length and obligation set; each is a single solver verdict over all strings of that length',
        'samples': [{'harness': k['harness'], 'status': k['status'], 'checks': k['checks'], 'covers': k['covers']} for k in ks],
        'outside_the_claim': ['paths longer than the stated lengths', 'more than 60 components (property precondition)',
                              'bytes other than the six-letter alphabet (the code compares only against / \\ .)'],
    })
    out.coverage['explanation'] += ('  Engine M repeats the differential on the MIR with every non-NUL byte value (not only the '
                                    'six-letter alphabet) for all lengths up to the bound, including idempotence.')
    out.assumptions += ['Kani/CBMC memory model', 'std models used by mirsym (listed)', 'reference model spec_canon (hooks/canon.rs) is the meaning of "equivalent spelling"']


def replay(ctx, cex):
    r = cex['replay']
    if r.get('cmd') == 'canonspec':
        rep = Replayer(ctx.tree)
        ans = rep.ask('canonspec ' + (r['bytes_hex'] or '-'))
        bad = not ans.startswith('ok same')
        print(('REPRODUCED: ' if bad else 'NOT-REPRODUCED: ') + ans[:300])
        return 1 if bad else 0
    from lib import kani
    rep, detail = kani.replay_native(ctx.tree, r['harness'])
    print(('REPRODUCED: ' if rep else 'NOT-REPRODUCED: ') + str(detail))
    return 1 if rep else 0
