"""Structured manifest families for C10 / C11 / C14 (engine M).

An ABSTRACT manifest (statements, paths in roles, bindings at file / rule / build level, include structure) is drawn
from symbolic choices; it is rendered into concrete Ninja text under a symbolic choice of SPELLING (separators, line
continuations, `$x` vs `${x}`, `$ `/`$:`/`$$` escapes) with symbolic bytes inside names and literals, and - on the
abstract side, independently of any parsing - into the graph it declares (reference evaluator `expand` below, written
from the property statement and doc/design_notes.md "Variable scope").  The real loader (hooks/load.rs::verif_load)
runs on the text; the solver must show on every path that the loaded graph equals the declared one.
"""
import z3

import mirsym as M
from mirsym import Agg, Cell, IntV, Opaque, Ref, SliceRef, err, ok
from mirsym.build import Layout, dm_items
from mirsym.models import conc_bytes
from checks import loaderlib as LL

VARCHARS = set(b'abcdefghijklmnopqrstuvwxyzABCDEFGHIJKLMNOPQRSTUVWXYZ0123456789_-')


def B(s):
    return [IntV(8, c) for c in (s.encode() if isinstance(s, str) else s)]


class Text:
    """manifest text under construction: list of IntV(8)"""

    def __init__(self):
        self.bs = []

    def add(self, x):
        self.bs += B(x) if isinstance(x, (bytes, str)) else list(x)
        return self


# ---------------------------------------------------------------------------------------------------- reference evaluator
# a value is a list of parts: ('lit', [IntV...]) | ('var', b'name')
def expand(parts, envs):
    """Ninja expansion: the first env that binds the name wins; its (unexpanded) value continues in the FOLLOWING envs;
    an env entry that is already a plain string (file-level variables are expanded when defined) is inserted as is"""
    out = []
    for p in parts:
        if p[0] == 'lit':
            out += p[1]
        else:
            for i, env in enumerate(envs):
                v = env.get(p[1])
                if v is not None:
                    if isinstance(v, tuple) and v[0] == 'plain':
                        out += v[1]
                    else:
                        out += expand(v, envs[i + 1:])
                    break
    return out


def plain(bs):
    return ('plain', list(bs))


def bytes_eq(I, got, want, key, desc, extra=None):
    """got, want: lists of IntV(8)"""
    if len(got) != len(want):
        I.fail(key, desc + ': %d bytes instead of %d (%r vs %r)' % (len(got), len(want), show(got), show(want)), extra=extra)
    for g, w in zip(got, want):
        I.oblige(I.binop('Eq', g, w), key, desc + ' (%r vs %r)' % (show(got), show(want)), extra=extra)


def show(bs):
    return bytes(b.v if b.conc() else 63 for b in bs)


# ---------------------------------------------------------------------------------------------------- reading the result
class Loaded:
    """view of a load.rs Loader value"""

    def __init__(self, L, loader):
        self.L = L
        self.loader = loader
        g = L.get(loader, 'graph')
        self.files = dm_items(L.get(L.get(g, 'files'), 'by_id'))
        self.builds = dm_items(L.get(g, 'builds'))

    def name(self, fid):
        return list(self.L.get(self.files[fid.fields[0].v], 'name').fields[0].fields)

    def build(self, i):
        L = self.L
        b = self.builds[i]
        ins = L.get(b, 'ins')
        ids = L.get(ins, 'ids').fields
        e, im, oo = L.get(ins, 'explicit').v, L.get(ins, 'implicit').v, L.get(ins, 'order_only').v
        outs = L.get(b, 'outs')
        oids = L.get(outs, 'ids').fields
        oe = L.get(outs, 'explicit').v

        def opt(f):
            v = L.get(b, f)
            return None if v.variant == 'None' else list(v.fields[0].fields[0].fields)
        return {
            'explicit_outs': [self.name(x) for x in oids[:oe]], 'implicit_outs': [self.name(x) for x in oids[oe:]],
            'explicit_ins': [self.name(x) for x in ids[:e]], 'implicit_ins': [self.name(x) for x in ids[e:e + im]],
            'order_only_ins': [self.name(x) for x in ids[e + im:e + im + oo]], 'validation_ins': [self.name(x) for x in ids[e + im + oo:]],
            'cmdline': opt('cmdline'), 'desc': opt('desc'), 'depfile': opt('depfile'), 'pool': opt('pool'),
            'rspfile': self.rsp(b), 'showincludes': L.get(b, 'parse_showincludes'),
            'hide_success': L.get(b, 'hide_success'), 'hide_progress': L.get(b, 'hide_progress'),
            'line': L.get(L.get(b, 'location'), 'line').v,
            'explicit_count_ok': oe <= len(oids),
        }

    def rsp(self, b):
        """(path bytes, content bytes) of the step's response file, or None"""
        L = self.L
        v = L.get(b, 'rspfile')
        if v.variant == 'None':
            return None
        r = v.fields[0]
        path = L.get(r, 'path')
        while isinstance(path, Agg) and path.kind not in ('Vec', 'bytes') and path.fields:   # PathBuf -> OsString -> .. -> Vec<u8>
            path = path.fields[0]
        return list(path.fields), list(L.get(r, 'content').fields[0].fields)

    def defaults(self):
        return [self.name(x) for x in self.L.get(self.loader, 'default').fields]

    def pools(self):
        return [(list(e.fields[0].fields[0].fields), e.fields[1]) for e in self.L.get(self.loader, 'pools').fields[0].fields]


def compare_build(I, got, want, extra=None):
    for role in ('explicit_outs', 'implicit_outs', 'explicit_ins', 'implicit_ins', 'order_only_ins', 'validation_ins'):
        g, w = got[role], want.get(role, [])
        if len(g) != len(w):
            I.fail('role-count:' + role, 'the step has %d %s, the manifest declares %d (%r vs %r)' % (
                len(g), role.replace('_', ' '), len(w), [show(x) for x in g], [show(x) for x in w]), extra=extra)
        for a, b in zip(g, w):
            bytes_eq(I, a, b, 'path:' + role, 'a path in role %s differs from the declared one' % role, extra)
    for attr in ('cmdline', 'desc', 'depfile', 'pool'):
        if attr not in want:
            continue
        g, w = got[attr], want[attr]
        if (g is None) != (w is None):
            I.fail('attr-presence:' + attr, '%s is %s, declared %s' % (attr, 'absent' if g is None else show(g), 'absent' if w is None else show(w)), extra=extra)
        if g is not None:
            bytes_eq(I, g, w, 'attr:' + attr, 'the evaluated %s differs from the declared one' % attr, extra)


class ManifestHarness:
    """base: subclasses implement generate(I) -> (text bytes, includes {name: bytes}, expectation callback)"""

    def __init__(self, I, tree):
        self.L = Layout(tree.path)
        self.entry = I.fn('verif_load', 'load.rs')
        self.includes = {}
        LL.install_loader_env(I, self, include_model=self.read_include)
        self.stdout = []
        I.overrides.append((__import__('re').compile(r'^std::io::_print$|^_print$'), self.m_print))
        I._resolve_cache = {}

    def m_print(self, I, args, callee):
        try:
            self.stdout.append(show(M.models.render_args(I, args[0])))
        except Exception:
            self.stdout.append(b'?')
        return M.UNIT

    def read_include(self, I, args, callee):
        name = conc_bytes(I, M.models.as_slice(I, args[0]))
        if name is None or name not in self.includes:
            return err(Opaque('io::Error', ('NotFound',)))
        return ok(Agg('Vec', list(self.includes[name]) + [IntV(8, 0)]))

    def run_path(self, I):
        self.stdout = []
        text, includes, expect = self.generate(I)
        self.includes = includes
        self.text = text
        r = I.call_fn(self.entry, [LL.buf_ref(list(text) + [IntV(8, 0)])])
        return expect(I, r)

    def extra(self):
        return {'text': [b.v if b.conc() else None for b in self.text],
                'symnames': [str(b.v) if not b.conc() else None for b in self.text],
                'includes': {k.decode(): [b.v if b.conc() else None for b in v] for k, v in self.includes.items()}}


def sym_name_byte(I, name, exclude=()):
    """a symbolic byte usable inside a path / literal without quoting: not NUL, newline, CR, space, $, :, |, #"""
    b = I.fresh_int(name, 8)
    for c in (0, 10, 13, 32, 36, 58, 124, 35) + tuple(exclude):
        I.solver.add(b.v != c)
    return b
