"""C02 - a successful incremental build leaves what a clean build would produce (no stale skips).

Engine M.  (1) The one-step dirty-check kernel (checks/dirtykernel.py): the real check_build_dirty / hash_build with
a symbolic record, symbolic current file system, command and response-file text: a step judged up to date must have
a record and unchanged names + mtimes of every dirtying input, discovered dependency and output, unchanged command
line and response file, and nothing relevant missing.  (2) The scheduler harness with the ordering assertions that
C02 relies on: a step is judged only after its producers settled, so it sees their fresh output mtimes (S-cut).
(3) The S-full chain (checks/sfull.py) and the S-task chain (checks/taskchain.py: the same with the real command
runner, run_task and read_depfile in the loop, the command reporting through depfile TEXT).
"""
from checks import dirtykernel as DK
from checks import schedlib as S
from checks import sfull
from checks import taskchain

LEVEL = 'other'


def run(ctx, out):
    ex = DK.run_kernel(ctx, out, 'C02', {'C02', 'C09'})
    sfull.run_chain(ctx, out, 'C02', {'C02', 'C09'})
    taskchain.run_taskchain(ctx, out, 'C02', {'C02', 'C09'})
    fams = [f for f in S.families(ctx.tier) if f.name in ('chain of three', 'fan-in: two producers, one consumer')]
    S.run_check(ctx, out, 'C01', fams, {'C01'})
    cov = out.coverage
    cov.update({
        'explanation': 'bounded symbolic execution (mirsym/z3) of the real dirty check: recorded and current mtimes are independent 64+32-bit '
                       'symbolic values per file, missing flags symbolic, command/response text symbolic bytes, file numbering differs between '
                       'the recording and the current graph; the hasher is a recording model (equal hashes iff equal byte streams); every path '
                       'class carries the obligation "clean => nothing relevant changed"; plus the judged-after-producers ordering on 3-step graphs',
        'evaluations': cov.get('paths', 0), 'distinct_nontrivial': cov.get('paths', 0),
        'rule': 'one evaluation = one feasible path class closed by the solver',
        'samples': [{'kernel_outcomes': list(cov['harnesses'].values())[0].get('outcomes')}] + cov.get('samples', [])[:3],
        'bounds': {'kernel': 'one step, 2 outputs, explicit+implicit+order-only+validation input, discovered list in %r' % (DK.DSETS,),
                   'histories': 'one recorded state against one current state (any two states); longer histories only inductively'},
        'outside_the_claim': ['histories of more than two invocations except through the arbitrary-recorded-state argument',
                              'phony aliases used as dirtying inputs (excluded by the property, F8)', 'SipHash collisions'],
    })
    out.assumptions += ['graph::stat replaced by a symbolic file system', 'DefaultHasher replaced by a recording hasher (collision-free SipHash assumed)',
                        'a content change comes with an mtime change (the property\'s own assumption)']


def replay(ctx, cex):
    if 'variant' in cex['replay']:
        return taskchain.replay_taskchain(ctx, cex)
    if 'model' in cex['replay']:
        return sfull.replay_chain(ctx, cex)
    if cex['replay'].get('cmd', '').startswith('dirty1'):
        return DK.replay_kernel(ctx, cex)
    return S.replay_cex(ctx, cex)
