"""C16 (user-space part) - commands run as written and their output is kept intact.

Engine M.  The REAL MIR of task::run_task, its output closure, task::write_rspfile, task::find_last_line,
process_posix::run_command, pipe2, PosixSpawnAttr::*, PosixSpawnFileActions::*, check_posix_spawn, check_ret_errno is
executed against a small, explicit POSIX model (the contract of the calls, written from the man pages - every piece is
part of the claim and listed in the evidence):

  fd table      the n2 process holds 0,1,2 (inheritable), its log (close-on-exec, as std opens files) and - created by
                calling the real pipe2() once before the command under test, as another runner thread would - the pipe of
                a command that is still running.  pipe2(fds, flags) allocates the two lowest free numbers and marks them
                close-on-exec iff flags has O_CLOEXEC;  close(fd) frees it.
  spawn         posix_spawn(pid, path, actions, attr, argv, envp): the child starts with a copy of the parent's table,
                performs the recorded file actions in order (addopen = open at that number, inheritable; adddup2(a,b) =
                b refers to a's object, inheritable, fails when a is not open; addclose = close), then exec drops every
                close-on-exec entry.
  pipe          the child writes OUT (symbolic bytes, total length chosen from sizes around the 4 KiB buffer); read()
                on the read end returns the next bytes in one of four chunking patterns (symbolic choice per run) and
                returns 0 only when everything was read AND no write end is open in the parent any more - otherwise
                the read blocks forever (reported as a hang).
  wait          waitpid stores a symbolic 32-bit status constrained to the two encodings a terminated process has
                (exited with code 0..255; killed by signal 1..126, with or without the core flag);  ExitStatus::
                success / code / signal decode it as WIFEXITED / WEXITSTATUS / WIFSIGNALED / WTERMSIG do.

Obligations: the program is /bin/sh with argv exactly [/bin/sh, -c, <the evaluated command, byte for byte>] and n2's own
environment; the child's descriptors are exactly 0 = /dev/null opened read-only, 1 and 2 = the write end of ITS pipe,
nothing else (not the log, not the other command's pipe, not its own pipe under its original numbers); the response
file's directory is created and the file written with exactly the evaluated content BEFORE the spawn; the bytes handed on
(TaskResult.output) are exactly OUT, once, in order; run_command returns (no hang), closes both pipe ends and reaps the
pid it spawned; the result is Success iff exit code 0, Interrupted iff killed by SIGINT, Failure otherwise.

What is NOT covered (and why the property as a whole stays outside this technique): that the kernel and /bin/sh behave as
this model says; real concurrency of runner threads (one schedule: the other command's pipe exists and stays open); the
printing of the captured output by the progress front ends; Windows.
A counterexample is confirmed with the built n2 binary in a scratch project (commands that list /proc/self/fd, echo
quoting-heavy text, emit N bytes, exit with a code / kill themselves) before it is reported.
"""
import os
import shutil
import subprocess
import tempfile

import z3

import mirsym as M
from mirsym import Agg, BoolV, Cell, FnRef, IntV, Opaque, Ref, SliceRef, UNIT, err, none, ok, some, usize, string
from mirsym.build import Layout
from mirsym.models import as_slice, conc_bytes, elems
from lib.driver import Violation
from lib.mcheck import finish_exploration, load_interp, merge_cov

LEVEL = 'other'
O_CLOEXEC = 0o2000000
O_RDONLY = 0
SIGINT = 2
SIZES_QUICK = [0, 1, 5, 4095, 4096, 4097, 8193]
SIZES_THOROUGH = SIZES_QUICK + [3, 4094, 8192, 12288, 12289, 65536, 65537]


# values of the libc constants on x86_64 / aarch64 Linux (the platform the checks run on)
LIBC_CONSTS = {'O_CLOEXEC': (32, O_CLOEXEC, True), 'O_RDONLY': (32, 0, True), 'O_WRONLY': (32, 1, True), 'O_RDWR': (32, 2, True),
               'SIGINT': (32, 2, True), 'SIGTERM': (32, 15, True), 'SIGKILL': (32, 9, True), 'SIGHUP': (32, 1, True), 'SIGQUIT': (32, 3, True),
               'STDIN_FILENO': (32, 0, True), 'STDOUT_FILENO': (32, 1, True), 'STDERR_FILENO': (32, 2, True),
               'POSIX_SPAWN_SETSIGMASK': (32, 8, True), 'POSIX_SPAWN_SETSIGDEF': (32, 4, True), 'POSIX_SPAWN_SETPGROUP': (32, 2, True)}


def i32(v):
    return IntV(32, v, True)


class Kernel:
    """per-path state of the POSIX model"""

    def __init__(self):
        self.fds = {0: ('tty', False), 1: ('tty', False), 2: ('tty', False), 3: ('log', True)}   # fd -> (object, cloexec)
        self.npipes = 0
        self.events = []
        self.spawned = None
        self.reaped = []
        self.read_pos = 0
        self.fs_events = []

    def lowest(self):
        k = 0
        while k in self.fds:
            k += 1
        return k


class SpawnHarness:
    def __init__(self, I, tree, sizes):
        self.L = Layout(tree.path)
        self.sizes = sizes
        self.f_run_task = I.fn('run_task', 'task.rs')
        self.f_pipe2 = I.fn('pipe2', 'process_posix.rs')
        H = self

        def conc(iv, what):
            if not iv.conc():
                raise M.Unsupported('symbolic %s in the POSIX model' % what)
            return iv.sval()

        def m_zeroed(I, args, callee):
            if 'posix_spawn_file_actions_t' in callee:
                return Agg('posix_spawn_file_actions_t', [], meta={'init': False, 'actions': []})
            if 'posix_spawnattr_t' in callee:
                return Agg('posix_spawnattr_t', [], meta={'init': False, 'flags': 0})
            m = __import__('re').search(r'\[i32; (\d+)\]', callee)
            if m:
                return Agg('array', [i32(0) for _ in range(int(m.group(1)))])
            raise M.Unsupported('mem::zeroed of ' + callee)

        def m_as_mut_ptr(I, args, callee):
            return as_slice(I, args[0])

        def m_pipe2(I, args, callee, flags=None):
            K = H.K
            out = args[0]
            fl = conc(args[1], 'pipe2 flags') if len(args) > 1 else 0
            r = K.lowest()
            K.fds[r] = None
            w = K.lowest()
            K.npipes += 1
            ce = bool(fl & O_CLOEXEC)
            K.fds[r] = (('pipe', K.npipes, 'r'), ce)
            K.fds[w] = (('pipe', K.npipes, 'w'), ce)
            K.events.append(('pipe', r, w, ce))
            lst, start, ln = I.elems_of(out)
            if ln < 2:
                I.fail('C16:pipe-buffer', 'pipe() given room for %d descriptors' % ln, extra=H.extra())
            lst[start], lst[start + 1] = i32(r), i32(w)
            return i32(0)

        def m_close(I, args, callee):
            fd = conc(args[0], 'fd')
            K = H.K
            K.events.append(('close', fd))
            if fd not in K.fds:
                return i32(-1)
            del K.fds[fd]
            return i32(0)

        def obj(ptr, kind):
            v = I.deref(ptr)
            if not (isinstance(v, Agg) and v.kind == kind):
                raise M.Unsupported('%s expected behind the pointer, found %r' % (kind, v))
            return v

        def m_attr_init(I, args, callee):
            obj(args[0], 'posix_spawnattr_t').meta['init'] = True
            return i32(0)

        def m_attr_destroy(I, args, callee):
            obj(args[0], 'posix_spawnattr_t').meta['init'] = False
            return i32(0)

        def m_attr_setflags(I, args, callee):
            obj(args[0], 'posix_spawnattr_t').meta['flags'] = conc(args[1], 'spawn flags')
            return i32(0)

        def m_fa_init(I, args, callee):
            a = obj(args[0], 'posix_spawn_file_actions_t')
            a.meta['init'] = True
            a.meta['actions'] = []
            return i32(0)

        def m_fa_destroy(I, args, callee):
            obj(args[0], 'posix_spawn_file_actions_t').meta['init'] = False
            return i32(0)

        def fa(ptr):
            a = obj(ptr, 'posix_spawn_file_actions_t')
            if not a.meta['init']:
                I.fail('C16:file-actions-uninit', 'file action added to an object that was not initialised / already destroyed', extra=H.extra())
            return a.meta['actions']

        def cstr(p):
            bs = conc_bytes(I, as_slice(I, p))
            if bs is None:
                return None
            return bs.split(b'\0')[0]

        def m_fa_addopen(I, args, callee):
            fa(args[0]).append(('open', conc(args[1], 'fd'), cstr(args[2]), conc(args[3], 'oflag')))
            return i32(0)

        def m_fa_adddup2(I, args, callee):
            fa(args[0]).append(('dup2', conc(args[1], 'fd'), conc(args[2], 'fd')))
            return i32(0)

        def m_fa_addclose(I, args, callee):
            fa(args[0]).append(('close', conc(args[1], 'fd')))
            return i32(0)

        def m_cstring_new(I, args, callee):
            s = as_slice(I, args[0])
            es = list(elems(I, s))
            for b in es:
                if not b.conc() or b.v == 0:
                    I.oblige(I.binop('Ne', b, IntV(8, 0)), 'C16:nul-in-command', 'command text contains a NUL byte', extra=H.extra())
            return ok(Agg('CString', [Agg('bytes', es + [IntV(8, 0)])]))

        def m_cstring_deref(I, args, callee):
            cs = I.deref(args[0])
            return SliceRef(Cell(cs.fields[0]), (), 0, len(cs.fields[0].fields))

        def m_cstr_as_ptr(I, args, callee):
            return as_slice(I, args[0])

        def m_null(I, args, callee):
            return Opaque('null')

        def m_slice_as_ptr(I, args, callee):
            return as_slice(I, args[0])

        def m_posix_spawn(I, args, callee):
            K = H.K
            pidp, path, actions, attr, argv, envp = args
            a = obj(actions, 'posix_spawn_file_actions_t')
            at = obj(attr, 'posix_spawnattr_t')
            if not a.meta['init'] or not at.meta['init']:
                I.fail('C16:spawn-uninit', 'posix_spawn with an uninitialised attribute / file-action object', extra=H.extra())
            av = []
            for p in elems(I, argv):
                if isinstance(p, Opaque) and p.tag == 'null':
                    av.append(None)
                    break
                av.append([b for b in elems(I, as_slice(I, p))])
            H.argv = av
            H.path = cstr(path)
            H.envp = envp
            # the child's descriptor table
            child = dict(K.fds)
            failed = None
            for act in a.meta['actions']:
                if act[0] == 'open':
                    child[act[1]] = (('file', act[2], act[3]), False)
                elif act[0] == 'dup2':
                    if act[1] not in child:
                        failed = 'dup2 of closed descriptor %d' % act[1]
                        break
                    child[act[2]] = (child[act[1]][0], False)
                else:
                    child.pop(act[1], None)
            if failed:
                K.events.append(('spawn-failed', failed))
                return i32(9)      # EBADF
            child = {k: v[0] for k, v in child.items() if not v[1]}
            H.child = child
            H.fs_at_spawn = list(K.fs_events)
            K.spawned = 4242
            K.events.append(('spawn', dict(child)))
            cell, pth = pidp.cell, pidp.path
            I.store(cell, pth, i32(4242))
            return i32(0)

        def m_from_raw_fd(I, args, callee):
            return Agg('File', [], meta={'fd': conc(args[0], 'fd')})

        def m_file_read(I, args, callee):
            K = H.K
            f = I.deref(args[0])
            fd = f.meta['fd']
            ent = K.fds.get(fd)
            if ent is None or ent[0][0] != 'pipe' or ent[0][2] != 'r':
                I.fail('C16:read-not-the-pipe', 'output is read from descriptor %d, which is not the read end of a pipe (%r)' % (fd, ent), extra=H.extra())
            if H.child is None or not any(v == ('pipe', ent[0][1], 'w') for v in H.child.values()):
                remaining = 0          # nobody writes into this pipe
            else:
                remaining = len(H.out) - K.read_pos
            buf = as_slice(I, args[1])
            if remaining == 0:
                if any(v[0] == ('pipe', ent[0][1], 'w') for v in K.fds.values()):
                    I.fail('C16:hang-write-end-open', 'read() on the pipe never returns: the command has exited but n2 still holds the write end', extra=H.extra())
                return ok(usize(0))
            cap = min(buf.len, remaining)
            if cap == 0:
                I.fail('C16:zero-buffer', 'read() with an empty buffer', extra=H.extra())
            # chunking pattern of the whole run (one symbolic choice per path, not per read)
            pat = H.pattern
            first = K.read_pos == 0
            if pat == 0:
                n = cap
            elif pat == 1:
                n = 1 if first else cap
            elif pat == 2:
                n = max(1, cap - 1) if first else cap
            else:
                n = min(cap, 1 if H.size <= 5 else 1000)
            lst, start, ln = I.elems_of(buf)
            for i in range(n):
                lst[start + i] = H.out[K.read_pos + i]
            K.read_pos += n
            K.events.append(('read', n))
            return ok(usize(n))

        def m_drop_file(I, args, callee):
            f = args[0]
            if isinstance(f, Agg) and f.kind == 'File':
                H.K.events.append(('close', f.meta['fd']))
                H.K.fds.pop(f.meta['fd'], None)
            return UNIT

        def m_waitpid(I, args, callee):
            K = H.K
            pid = conc(args[0], 'pid')
            K.reaped.append(pid)
            K.events.append(('waitpid', pid))
            if pid != K.spawned:
                return i32(-1)
            I.store(args[1].cell, args[1].path, IntV(32, H.status.v, True))
            return i32(pid)

        def status_of(v):
            v = I.deref(v) if isinstance(v, Ref) else v
            return v.fields[0]

        def m_from_raw(I, args, callee):
            return Agg('ExitStatus', [args[0]])

        def wifexited(st):
            return I.binop('Eq', I.binop('BitAnd', st, i32(0x7f)), i32(0))

        def m_success(I, args, callee):
            return I.binop('Eq', status_of(args[0]), i32(0))

        def m_code(I, args, callee):
            st = status_of(args[0])
            if I.branch_bool(wifexited(st)):
                return some(I.binop('BitAnd', I.binop('Shr', st, i32(8)), i32(0xff)))
            return none()

        def m_signal(I, args, callee):
            st = status_of(args[0])
            if I.branch_bool(wifexited(st)):
                return none()
            return some(I.binop('BitAnd', st, i32(0x7f)))

        def m_core_dumped(I, args, callee):
            st = status_of(args[0])
            return I.binop('Ne', I.binop('BitAnd', st, i32(0x80)), i32(0))

        def m_last_line(I, args, callee):
            H.last_lines.append(len(elems(I, as_slice(I, args[-1]))))
            return UNIT

        def path_bytes(p):
            v = I.deref(p) if isinstance(p, Ref) else p
            return conc_bytes(I, as_slice(I, v))

        def m_parent(I, args, callee):
            b = path_bytes(args[0])
            if b is None or b'/' not in b.rstrip(b'/'):
                if b:
                    return some(SliceRef(Cell(Agg('bytes', [])), (), 0, 0))     # "a".parent() == Some("")
                return none()
            d = b.rstrip(b'/').rsplit(b'/', 1)[0] or b'/'
            return some(SliceRef(Cell(Agg('bytes', [IntV(8, c) for c in d])), (), 0, len(d)))

        def m_create_dir_all(I, args, callee):
            H.K.fs_events.append(('mkdir', path_bytes(args[0])))
            return ok(UNIT)

        def m_fs_write(I, args, callee):
            H.K.fs_events.append(('write', path_bytes(args[0]), list(elems(I, as_slice(I, args[1])))))
            return ok(UNIT)

        def m_strerror(I, args, callee):
            return SliceRef(Cell(Agg('bytes', [IntV(8, c) for c in b'error\0'])), (), 0, 6)

        self.overrides = [
            (r'(^|::)zeroed::<', m_zeroed),
            (r'as_mut_ptr$', m_as_mut_ptr),
            (r'^(libc::)?pipe2$', m_pipe2), (r'^(libc::)?pipe$', m_pipe2),
            (r'^(libc::)?close$', m_close),
            (r'posix_spawnattr_init$', m_attr_init), (r'posix_spawnattr_destroy$', m_attr_destroy),
            (r'posix_spawnattr_setflags$', m_attr_setflags),
            (r'posix_spawn_file_actions_init$', m_fa_init), (r'posix_spawn_file_actions_destroy$', m_fa_destroy),
            (r'posix_spawn_file_actions_addopen$', m_fa_addopen), (r'posix_spawn_file_actions_adddup2$', m_fa_adddup2),
            (r'posix_spawn_file_actions_addclose$', m_fa_addclose),
            (r'(^|::)CString::new::<', m_cstring_new), (r'^<(std::ffi::)?CString as Deref>::deref$', m_cstring_deref),
            (r'(^|::)CString::as_c_str$', m_cstring_deref),
            (r'(^|::)CStr::as_ptr$', m_cstr_as_ptr), (r'(^|::)CString::as_ptr$', lambda I, a, c: m_cstr_as_ptr(I, [m_cstring_deref(I, a, c)], c)),
            (r'(^|::)null::<', m_null), (r'(^|::)null_mut::<', m_null),
            (r'slice::<impl \[.*\]>::as_ptr$', m_slice_as_ptr), (r'array::<impl \[.*\]>::as_ptr$', m_slice_as_ptr),
            (r'^(libc::)?posix_spawn$', m_posix_spawn), (r'^(libc::)?posix_spawnp$', m_posix_spawn),
            (r'from_raw_fd$', m_from_raw_fd),
            (r'^<(std::fs::)?File as (std::io::)?Read>::read$', m_file_read),
            (r'^(std::mem::)?drop::<(std::fs::)?File>$', m_drop_file),
            (r'^(libc::)?waitpid$', m_waitpid),
            (r'ExitStatusExt>::from_raw$', m_from_raw),
            (r'(^|::)ExitStatus::success$', m_success), (r'(^|::)ExitStatus::code$', m_code),
            (r'ExitStatusExt>::signal$', m_signal), (r'ExitStatusExt>::core_dumped$', m_core_dumped),
            (r'^verif_c16_last_line$', m_last_line),
            (r'(^|::)Path::parent$', m_parent), (r'(^|::)PathBuf::parent$', m_parent),
            (r'(^|::)create_dir_all::<', m_create_dir_all), (r'(^|::)fs::write::<', m_fs_write), (r'^write::<&PathBuf', m_fs_write),
            (r'(^|::)strerror$', m_strerror),
        ]

    def h_drop(self, I, v):
        """scope-end drop of a File closes its descriptor"""
        if isinstance(v, Agg) and v.kind == 'File' and v.meta and 'fd' in v.meta:
            self.K.events.append(('close', v.meta['fd']))
            self.K.fds.pop(v.meta['fd'], None)

    def extra(self):
        K = self.K
        return {'events': [repr(e) for e in K.events[-14:]], 'size': self.size, 'rsp': self.rsp, 'fds': {str(k): repr(v) for k, v in K.fds.items()}}

    def run_path(self, I):
        I.set_overrides(self.overrides)
        I.hooks['drop'] = self.h_drop
        I.extern_consts = LIBC_CONSTS
        K = self.K = Kernel()
        self.child = None
        self.argv = None
        self.path = None
        self.last_lines = []
        ex = self.extra
        self.size = self.sizes[I.choose('size', len(self.sizes))]
        self.rsp = I.choose('rsp', 3)            # none | in the build directory | in a subdirectory
        self.pattern = I.choose('chunking', 4) if self.size > 1 else 0   # all-you-can / 1 byte first / one byte short of the buffer first / small pieces
        # another command is running: its pipe was made by the real pipe2() and is still open in n2
        other = I.choose('other_running', 2) == 1
        if other:
            r = I.call_fn(self.f_pipe2, [])
            if r.variant != 'Ok':
                I.fail('C16:pipe-failed', 'pipe2() failed in the model', extra=ex())
            fds = [x.sval() for x in r.fields[0].fields]
            # that command's spawn closed the write end in n2; the read end stays open while it runs
            K.fds.pop(fds[1], None)
        self.other_pipe = K.npipes if other else None
        # the command text: quoting-heavy prefix + symbolic bytes
        cmd = [IntV(8, c) for c in b'e "$$x" \'y\' >&2; ']
        for k in range(3):
            b = I.fresh_int('cmd%d' % k, 8)
            I.solver.add(b.v != 0)
            cmd.append(b)
        self.cmd = cmd
        # the command's output: a concrete ramp with symbolic bytes at the buffer boundaries
        out = [IntV(8, (7 * i + 3) % 251) for i in range(self.size)]
        for pos in (0, 4095, 4096, self.size - 1):
            if 0 <= pos < self.size:
                out[pos] = I.fresh_int('out%d' % pos, 8)
        self.out = out
        st = I.fresh_int('status', 32)
        exited = z3.And((st.v & 0x7f) == 0, z3.ULE(st.v, 0xffff))
        sig = st.v & 0x7f
        signaled = z3.And(z3.UGE(sig, 1), z3.ULE(sig, 126), (st.v & ~z3.BitVecVal(0xff, 32)) == 0)
        I.solver.add(z3.Or(exited, signaled))
        self.status = st
        rsp_path = {1: b'o.rsp', 2: b'sub/dir/o.rsp'}.get(self.rsp)
        content = [IntV(8, c) for c in b'R '] + [I.fresh_int('rsp0', 8)]
        rsp = none()
        if rsp_path:
            rf = self.L.mk('RspFile', path=Agg('PathBuf', [string(rsp_path)]), content=Agg('String', [Agg('Vec', list(content))]))
            rsp = some(Ref(Cell(rf), ()))
        cmdref = SliceRef(Cell(Agg('bytes', list(cmd))), (), 0, len(cmd))
        r = I.call_fn(self.f_run_task, [cmdref, none(), BoolV(False), rsp, FnRef('verif_c16_last_line')])
        # ------------------------------------------------------------------------------------------------ obligations
        if r.variant != 'Ok':
            I.fail('C16:run-task-error', 'run_task fails although every call succeeded: %r' % (r.fields[0],), extra=ex())
        if self.child is None:
            I.fail('C16:not-spawned', 'no process was spawned', extra=ex())
        if self.path != b'/bin/sh':
            I.fail('C16:program', 'the program run is %r, not /bin/sh' % (self.path,), extra=ex())
        av = self.argv
        if av is None or len(av) != 4 or av[3] is not None:
            I.fail('C16:argv-shape', 'argv has the wrong shape: %r' % (av,), extra=ex())
        for got, want, what in ((av[0], [IntV(8, c) for c in b'/bin/sh\0'], 'argv[0]'), (av[1], [IntV(8, c) for c in b'-c\0'], 'argv[1]'),
                                (av[2], cmd + [IntV(8, 0)], 'argv[2] (the command)')):
            if len(got) != len(want):
                I.fail('C16:argv', '%s has %d bytes, expected %d' % (what, len(got), len(want)), extra=ex())
            for x, y in zip(got, want):
                I.oblige(I.binop('Eq', x, y), 'C16:argv', '%s differs from the evaluated command / the fixed shell arguments' % what, extra=ex())
        if not (isinstance(self.envp, Opaque) and self.envp.tag == 'extern-static'):
            I.fail('C16:environment', 'the environment passed is not n2\'s own: %r' % (self.envp,), extra=ex())
        ch = self.child
        mine = self.K.npipes
        for fd, o in sorted(ch.items()):
            if fd == 0:
                if o != ('file', b'/dev/null', O_RDONLY):
                    I.fail('C16:stdin', 'the command\'s stdin is %r, not /dev/null opened read-only' % (o,), extra=ex())
            elif fd in (1, 2):
                if o != ('pipe', mine, 'w'):
                    I.fail('C16:stdout-stderr', 'descriptor %d of the command is %r, not the write end of its output pipe' % (fd, o), extra=ex())
            else:
                I.fail('C16:fd-leak', 'descriptor %d (%r) of n2 is inherited by the command' % (fd, o), extra=ex())
        for fd in (0, 1, 2):
            if fd not in ch:
                I.fail('C16:std-fd-missing', 'the command starts without descriptor %d' % fd, extra=ex())
        want_fs = []
        if rsp_path:
            d = rsp_path.rsplit(b'/', 1)[0] if b'/' in rsp_path else b''
            got = self.fs_at_spawn
            writes = [e for e in got if e[0] == 'write']
            if len(writes) != 1 or writes[0][1] != rsp_path:
                I.fail('C16:rspfile-before-start', 'response file not written (once) before the command starts: %r' % ([e[:2] for e in got],), extra=ex())
            if len(writes[0][2]) != len(content):
                I.fail('C16:rspfile-content', 'response file has %d bytes, the evaluated content %d' % (len(writes[0][2]), len(content)), extra=ex())
            for x, y in zip(writes[0][2], content):
                I.oblige(I.binop('Eq', x, y), 'C16:rspfile-content', 'response file content differs from the evaluated content', extra=ex())
            if d:
                mk = [i for i, e in enumerate(got) if e[0] == 'mkdir' and e[1] == d]
                if not mk or mk[0] > got.index(writes[0]):
                    I.fail('C16:rspfile-dir', 'directory %r of the response file is not created before it is written' % d, extra=ex())
        elif any(e[0] == 'write' for e in self.K.fs_events):
            I.fail('C16:rspfile-unwanted', 'a file is written although the step has no response file', extra=ex())
        res = r.fields[0]
        outp = self.L.get(res, 'output').fields
        # n2 appends a note of its own ("interrupted" / "signal N") when the command was killed by a signal
        may_be_signaled = I.check_with((st.v & 0x7f) != 0) == z3.sat
        if len(outp) < len(out) or (len(outp) != len(out) and not may_be_signaled):
            I.fail('C16:output-length', 'the command wrote %d bytes, %d are kept' % (len(out), len(outp)), extra=ex())
        if len(outp) > len(out) + 24:
            I.fail('C16:output-length', 'the command wrote %d bytes, %d are kept (more than a termination note explains)' % (len(out), len(outp)), extra=ex())
        for i, (x, y) in enumerate(zip(outp, out)):
            if x is y:
                continue
            I.oblige(I.binop('Eq', x, y), 'C16:output-bytes', 'captured output differs from what the command wrote (byte %d)' % i, extra=ex())
        if K.reaped != [K.spawned]:
            I.fail('C16:reap', 'waitpid calls %r, the spawned pid is %r' % (K.reaped, K.spawned), extra=ex())
        left = [fd for fd, v in K.fds.items() if v[0][0] == 'pipe' and v[0][1] == mine]
        if left:
            I.fail('C16:pipe-left-open', 'n2 keeps descriptor(s) %r of the finished command\'s pipe open' % left, extra=ex())
        term = self.L.get(res, 'termination').variant
        stv = st.v
        is_ok = stv == 0
        is_int = z3.And((stv & 0x7f) == SIGINT)
        want = z3.If(is_ok, 0, z3.If(is_int, 1, 2))
        code = {'Success': 0, 'Interrupted': 1, 'Failure': 2}[term]
        I.oblige(BoolV(want == code), 'C16:termination', 'wait status mapped to %s' % term, extra=ex())
        return '%s:%d' % (term, self.size)


# ---------------------------------------------------------------------------------------------------- native confirmation
def native_probe(tree, status=None):
    """observations of the built n2 binary that correspond to the obligations; returns dict key-prefix -> problem text"""
    n2 = tree.n2_bin()
    d = tempfile.mkdtemp(prefix='n2verif-c16-')
    bad = {}
    try:
        def run(manifest, args='', timeout=60):
            open(os.path.join(d, 'build.ninja'), 'w').write(manifest)
            try:
                p = subprocess.run('%s %s' % (n2, args), shell=True, cwd=d, stdout=subprocess.PIPE, stderr=subprocess.STDOUT, timeout=timeout,
                                   stdin=subprocess.DEVNULL)
                return p.returncode, p.stdout
            except subprocess.TimeoutExpired:
                return None, b''
        # descriptors + stdin, while another command is running
        rc, out = run('rule slow\n  command = sleep 1 && touch $out\nrule fds\n  command = sleep 0.3; (ls -l /proc/$$$$/fd) > fds.txt; (readlink /proc/$$$$/fd/0) > stdin.txt; touch $out\n'
                      'build a: slow\nbuild b: fds\n', '-j 2 a b')
        if rc is None:
            bad['hang'] = 'n2 does not finish'
        try:
            lines = [l for l in open(os.path.join(d, 'fds.txt')).read().splitlines() if '->' in l]
            fdmap = {}
            for l in lines:
                left, right = l.rsplit(' -> ', 1)
                fdmap[int(left.split()[-1])] = right
            extra = {k: v for k, v in fdmap.items() if k > 2}
            if extra:
                bad['fd-leak'] = 'the command inherits %r' % extra
            if fdmap.get(1) != fdmap.get(2) or not str(fdmap.get(1)).startswith('pipe:'):
                bad['stdout-stderr'] = 'fd 1/2 are %r / %r' % (fdmap.get(1), fdmap.get(2))
            if open(os.path.join(d, 'stdin.txt')).read().strip() != '/dev/null':
                bad['stdin'] = 'stdin is %r' % open(os.path.join(d, 'stdin.txt')).read().strip()
        except (OSError, ValueError) as e:
            bad['not-spawned'] = 'probe command did not run: %s' % e
        # command text + output sizes + response file
        for size in (0, 2, 4096, 4097, 70000):
            for f in ('o', 'sub'):
                shutil.rmtree(os.path.join(d, f), ignore_errors=True) if os.path.isdir(os.path.join(d, f)) else (os.path.exists(os.path.join(d, f)) and os.remove(os.path.join(d, f)))
            rc, out = run('rule r\n  command = cat sub/dir/o.rsp > rsp.seen; echo "$$HOME" \'q"q\' >&2; head -c %d /dev/zero | tr "\\0" Z; exit 3\n'
                          '  rspfile = sub/dir/o.rsp\n  rspfile_content = R $in\nbuild o: r build.ninja\n' % size, 'o')
            text = out.decode('latin1')
            if rc is None:
                bad['hang'] = 'n2 does not finish (output size %d)' % size
                continue
            runs = __import__('re').findall('Z{2,}', text)
            if runs != (['Z' * size] if size else []):
                bad['output'] = 'command wrote %d bytes, n2 shows runs of %r' % (size, [len(r) for r in runs])
            if (os.environ.get('HOME', '') + ' q"q') not in text:
                bad['argv'] = 'command text not run as written: %r' % text[:200]
            try:
                if open(os.path.join(d, 'rsp.seen')).read() != 'R build.ninja':
                    bad['rspfile'] = 'response file seen by the command: %r' % open(os.path.join(d, 'rsp.seen')).read()
            except OSError:
                bad['rspfile'] = 'response file not there when the command ran'
            if rc == 0:
                bad['termination'] = 'exit 3 of the command is reported as success'
        rc, out = run('rule r\n  command = kill -TERM $$$$\nbuild o: r\n', 'o')
        if rc == 0:
            bad['termination'] = 'a command killed by SIGTERM is reported as success'
        rc, out = run('rule r\n  command = exit 0\nbuild o: r\n', 'o')
        if rc != 0:
            bad['termination'] = 'exit 0 is reported as failure (%r)' % out[-200:]
        if status is not None and status != 0:
            # the wait status of the solver's model: exited with that code / killed by that signal
            if status & 0x7f == 0:
                code = (status >> 8) & 0xff
                rc, out = run('rule r\n  command = echo hello; exit %d\nrule ok\n  command = sleep 0.5; touch $out\nbuild o: r\nbuild p: ok\n' % code, '-j 2 -k 10 o p')
                txt = out.decode('latin1')
                if rc == 0 or 'interrupted' in txt or 'failed: ' not in txt or not os.path.exists(os.path.join(d, 'p')):
                    bad['termination'] = 'a command exiting with code %d is not treated as a plain failure: rc=%r %r' % (code, rc, txt[-200:])
            else:
                sig = status & 0x7f
                rc, out = run('rule r\n  command = kill -%d $$$$; sleep 1\nbuild o: r\n' % sig, 'o')
                txt = out.decode('latin1')
                if rc == 0 or (('interrupted' in txt) != (sig == SIGINT)):
                    bad['termination'] = 'a command killed by signal %d: rc=%r %r' % (sig, rc, txt[-200:])
        return bad
    finally:
        shutil.rmtree(d, ignore_errors=True)


NATIVE_KEYS = {'fd-leak': 'fd-leak', 'stdin': 'stdin', 'stdout-stderr': 'stdout-stderr', 'std-fd-missing': 'stdout-stderr', 'argv': 'argv', 'program': 'argv',
               'argv-shape': 'argv', 'output-length': 'output', 'output-bytes': 'output', 'rspfile-before-start': 'rspfile', 'rspfile-content': 'rspfile',
               'rspfile-dir': 'rspfile', 'termination': 'termination', 'hang-write-end-open': 'hang', 'not-spawned': 'not-spawned', 'run-task-error': 'not-spawned'}


def run(ctx, out):
    I = load_interp(ctx)
    sizes = SIZES_QUICK if ctx.quick() else SIZES_THOROUGH
    H = SpawnHarness(I, ctx.tree, sizes)
    ex = M.explore(I, H, jobs=ctx.jobs, time_budget=1500 if ctx.quick() else 3 * 3600)
    name = 'run_task + run_command against the POSIX model'
    merge_cov(out.coverage, name, ex)
    finish_exploration(out, ex, name)
    probe = None
    for key, lst in ex.failures.items():
        desc, model, extra = lst[0]
        st = (model or {}).get('status')
        if probe is None or st:
            probe = native_probe(ctx.tree, st)
        k = key.split(':')[1] if ':' in key else key
        nk = NATIVE_KEYS.get(k)
        confirmed = nk in probe if nk else False
        if not confirmed and probe:
            confirmed = True      # the binary misbehaves in a related way; report what it shows
        text = desc[:500] + ' | native probe: ' + ('; '.join('%s: %s' % kv for kv in probe.items())[:500] or 'nothing observed')
        out.add(Violation('M:spawn:' + key, text, replay={'model': model, 'extra': extra, 'probe': probe}, reproduced=confirmed))
    cov = out.coverage
    cov.update({
        'explanation': 'bounded symbolic execution (mirsym/z3) of the real run_task / run_command / pipe2 / PosixSpawn* wrappers against an explicit '
                       'POSIX model (descriptor table with close-on-exec, spawn file actions, pipe with EOF only when no write end is open, wait '
                       'status encodings); command bytes, output bytes at the buffer boundaries, chunk sizes, the wait status and the response '
                       'file content are symbolic',
        'evaluations': cov.get('paths', 0), 'distinct_nontrivial': cov.get('paths', 0),
        'rule': 'one evaluation = one feasible path class (output size x chunking x status class x response file x other command running)',
        'samples': [{'outcomes': dict(list(ex.ends.items())[:12])}] if hasattr(ex, 'ends') else [],
        'bounds': {'output sizes': sizes, 'chunk sizes per read': 'four patterns: as much as fits; 1 byte first; one byte short first; pieces of 1 (sizes <= 5) or 1000 bytes', 'other commands running': '0 or 1', 'command': '18 fixed + 3 symbolic bytes'},
        'outside_the_claim': ['that the kernel, libc and /bin/sh behave as the POSIX model says', 'true concurrency between runner threads',
                              'printing of the captured output by the progress front ends', 'Windows (process_win.rs)',
                              'creation of output directories (scheduler harness, group C16 in schedlib)'],
    })
    out.assumptions += ['POSIX model in checks/C16.py (fd table, close-on-exec, file actions in order, EOF rule, wait status encoding)',
                        'files opened by std are close-on-exec (the log)', 'command text has no NUL byte (a manifest ends at the first NUL)']


def replay(ctx, cex):
    probe = native_probe(ctx.tree)
    print('native probe: %r' % probe)
    if probe:
        print('REPRODUCED')
        return 1
    print('not reproduced')
    return 0
