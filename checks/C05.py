"""C05 - failures are contained, budgeted by -k, and reflected in the exit status.

Engine M, scheduler harness S-cut with outcomes {Success, Failure, Interrupted} chosen symbolically at every
completion and -k either absent or an unconstrained symbolic value >= 1.  Monitor: no start of a step whose
(transitive) ordering producer failed; only successful commands are recorded; no start once the number of failures
reached the budget; with budget left every wanted step not downstream of a failure ends Done; run() returns
Ok(true) iff nothing failed or was interrupted and every wanted step is Done.
The mapping of run()'s result to the process exit status (run::run_impl / main) is covered by the run harness.
"""
from checks import schedlib as S
from checks import runlib as R

LEVEL = 'model_checking'


def run(ctx, out):
    fams = S.families(ctx.tier)
    if ctx.quick():
        for f in fams:
            if f.name == 'diamond':
                f.roles = 'explicit'
            if f.name.startswith('two steps'):
                f.roles = 'ordval'
    S.run_check(ctx, out, 'C05', fams + S.pool_families(ctx.tier)[:1], {'C05'}, outcomes=('Success', 'Failure', 'Interrupted'))
    R.run_run(ctx, out, 'C05', {'C05'})
    out.coverage.update({
        'explanation': 'states = path classes over graph shape x dirty bits x completion order x outcome of every completion x -k',
        'bounds': {'steps': '2-4', 'outcomes': ['Success', 'Failure', 'Interrupted'], 'k': 'absent, or any value >= 1 (symbolic)'},
        'outside_the_claim': ['-k 0 (outside the property: k >= 1)', 'decoding of the wait status (process_posix, FFI)'],
    })
    out.assumptions += ['S-cut: symbolic dirty bits; scripted executor; signal::was_interrupted() = false']


replay = S.replay_cex
