"""C01 - a command starts only after everything it depends on has finished.

Engine M, scheduler harness S-cut (checks/schedlib.py): real MIR of Work::new / want_file / run / recheck_ready /
ready_dependents / BuildStates::* on symbolic graphs; the monitor asserts at every command start and every dirty
judgement that each producer of an ordering input has settled, that no step starts twice, and that phony steps never
reach the runner.  -j, -k are symbolic 64-bit values; completion order and outcomes are symbolic.
"""
from checks import schedlib as S

LEVEL = 'model_checking'


def shapes(ctx):
    fams = S.families(ctx.tier)
    if ctx.quick():
        # the diamond with every role split is the thorough tier's; quick keeps explicit/order-only splits
        for f in fams:
            if f.name == 'diamond':
                f.roles = 'explicit'
    return fams


def run(ctx, out):
    S.run_check(ctx, out, 'C01', shapes(ctx), {'C01'})
    out.coverage.update({
        'explanation': 'states = path classes of (graph wiring x role split x dirty bits x completion order x outcomes) closed by z3 over the '
                       'real scheduler MIR; -j and -k are unconstrained 64-bit values decided by the solver at each comparison',
        'bounds': {'steps': '2 (all wirings), 3-4 (chain, fan-in, diamond, two-output producer)', 'input_slots_per_step': 2,
                   'outcomes': ['Success', 'Failure']},
        'outside_the_claim': ['more than 4 steps', 'more than 2 input slots / 2 outputs per step', 'real process timing',
                              'the reload case (C17)'],
    })
    out.assumptions += ['check_build_dirty replaced by a symbolic dirty bit (S-cut); Runner::start/wait replaced by a scripted executor',
                        'hash set iteration order explored as a symbolic permutation']


replay = S.replay_cex
