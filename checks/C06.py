"""C06 - every invocation terminates with a decision for every wanted step.

Engine M, scheduler harness S-cut: every path of Work::run must return within the step bound; the
`BUG: no work to do and runner not running` panic and a wait with nothing running are obligations; without a failing
outcome run() returns Ok(true) with every wanted step Done.  Cycle families: ordering inputs may name ANY output,
validation inputs any file; want_file must return the `dependency cycle: a -> b -> a` error exactly when the reference
DFS over ordering edges finds a cycle reachable from the request (its text must spell a real cycle of graph edges),
and must accept cycles closed only through validation edges, after which the run terminates.
"""
from checks import schedlib as S

LEVEL = 'model_checking'


def run(ctx, out):
    fams = S.families(ctx.tier)
    if ctx.quick():
        for f in fams:
            if f.name == 'diamond':
                f.roles = 'explicit'
    shapes = S.cycle_families(ctx.tier) + fams + S.pool_families(ctx.tier)[:1]
    S.run_check(ctx, out, 'C06', shapes, {'C06'})
    out.coverage.update({
        'explanation': 'states = path classes; termination = every path closes below the interpreter step bound (an obligation), panics are obligations',
        'bounds': {'steps': '2-4', 'cycle families': '3 steps, any ordering wiring; two-output step'},
        'outside_the_claim': ['steps already settled by the manifest-regeneration phase (C17 harness)', 'more than 4 steps'],
    })
    out.assumptions += ['S-cut: symbolic dirty bits; scripted executor']


replay = S.replay_cex
