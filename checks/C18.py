"""C18 - exactly the requested closure is considered.

Engine M, scheduler harness S-cut: after Work::want_file on a symbolic non-empty subset of the outputs (or
want_every_file) the set of steps that left the Unknown state must equal the closure of the request over explicit,
implicit, order-only and validation inputs computed by a reference traversal; during the run no step outside it is
examined or started.  Target-name resolution, `default` statements and -f/-C/builddir are covered by the run harness.
"""
from checks import schedlib as S
from checks import runlib as R

LEVEL = 'model_checking'


def run(ctx, out):
    S.run_check(ctx, out, 'C18', S.closure_families(ctx.tier), {'C18'})
    R.run_run(ctx, out, 'C18', {'C18'})
    out.coverage.update({
        'explanation': 'states = path classes over wiring (incl. validation edges to any file) x target subset x dirty bits x schedule',
        'bounds': {'steps': 3, 'targets': 'every non-empty subset of size <= 2 of the outputs, or all files'},
        'outside_the_claim': ['-C / -f / builddir file-system effects', 'more than 3 steps'],
    })
    out.assumptions += ['S-cut: symbolic dirty bits; scripted executor']


replay = S.replay_cex
