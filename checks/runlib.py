"""Run harness R (engine M): the real MIR of run::run_impl -> run::build -> Work::{new, lookup, want_file,
want_every_file, run} with load::read replaced by a model that hands out generation 1, then - if asked again -
generation 2 of the manifest: two independently drawn graphs over a common pool of file names (steps added, removed,
renumbered, default list changed, pool depth changed).  Scheduler environment as in S-cut (symbolic dirty bit per
(generation, step), scripted executor).  parse_args is replaced by a model returning the BuildArgs under test.

Monitor: which generation every judged / started step belongs to, how often load::read ran, the process exit code
returned by run_impl and the summary line printed.
"""
import z3

import mirsym as M
from mirsym import Agg, BoolV, Cell, IntV, Opaque, Ref, UNIT, err, none, ok, some, usize, vec, string
from mirsym.build import Layout, World, buildid, fileid, dm_items, hashmap
from mirsym.models import anyhow_text, conc_bytes, as_slice


# a generation: list of steps (name, outs, ins(explicit), pool) + default list + pool depths, and an interning order
def gen1():
    return {'order': ['build.ninja', 'gen.in', 's', 't1', 'u'],
            'steps': [('regen', ['build.ninja'], ['gen.in'], None), ('a', ['t1'], ['s'], None), ('b', ['u'], ['s'], None)],
            'default': [], 'pools': {}}


GEN2 = {
    'same': lambda: gen1(),
    # t1 no longer exists, t2 is new; files are interned in another order
    # (load::read interns the manifest's own name first, so it is file 0 in every generation)
    'renamed': lambda: {'order': ['build.ninja', 'u', 's', 't2', 'gen.in'],
                        'steps': [('b', ['u'], ['s'], None), ('a2', ['t2'], ['s'], None), ('regen', ['build.ninja'], ['gen.in'], None)],
                        'default': [], 'pools': {}},
    # a default statement appears (and the numbering shifts)
    'default': lambda: {'order': ['build.ninja', 'x', 'gen.in', 'u', 's', 't1'],
                        'steps': [('regen', ['build.ninja'], ['gen.in'], None), ('a', ['t1'], ['s'], None), ('b', ['u'], ['s'], None)],
                        'default': ['u'], 'pools': {}},
    # a step is added: every path mentioned after it is renumbered
    'grown': lambda: {'order': ['build.ninja', 'c', 's', 't1', 'u', 'gen.in'],
                      'steps': [('c', ['c'], ['s'], None), ('a', ['t1'], ['s'], None), ('b', ['u'], ['s'], None),
                                ('regen', ['build.ninja'], ['gen.in'], None)],
                      'default': [], 'pools': {}},
    # two steps are added (with the generator statement last in the text, the position the manifest's own name had
    # in generation 1's text is a user output's in generation 2)
    'grown2': lambda: {'order': ['build.ninja', 'c', 'd', 's', 't1', 'u', 'gen.in'],
                       'steps': [('c', ['c'], ['s'], None), ('d', ['d'], ['s'], None), ('a', ['t1'], ['s'], None), ('b', ['u'], ['s'], None),
                                 ('regen', ['build.ninja'], ['gen.in'], None)],
                       'default': [], 'pools': {}},
    # both user steps move into a pool of depth 1
    'pooled': lambda: {'order': ['build.ninja', 'gen.in', 's', 't1', 'u'],
                       'steps': [('regen', ['build.ninja'], ['gen.in'], None), ('a', ['t1'], ['s'], b'p'), ('b', ['u'], ['s'], b'p')],
                       'default': [], 'pools': {b'p': 1}},
}
G1_VARIANTS = {
    'plain': gen1,
    # the generator has an order-only input produced by a helper step
    'helper': lambda: {'order': ['build.ninja', 'gen.in', 'h', 's', 't1', 'u'],
                       'steps': [('regen', ['build.ninja'], ['gen.in'], None, ['h']), ('hs', ['h'], ['s'], None), ('a', ['t1'], ['s'], None),
                                 ('b', ['u'], ['s'], None)],
                       'default': [], 'pools': {}},
    'default-t1': lambda: dict(gen1(), default=['t1']),
    'pool2': lambda: {'order': ['build.ninja', 'gen.in', 's', 't1', 'u'],
                      'steps': [('regen', ['build.ninja'], ['gen.in'], None), ('a', ['t1'], ['s'], b'p'), ('b', ['u'], ['s'], b'p')],
                      'default': [], 'pools': {b'p': 2}},
}
TARGETS = [[], ['t1'], ['t2'], ['./u'], ['nope'], ['build.ninja']]
FILENAMES = [None, b'./build.ninja']


class Run:
    def __init__(self, I, tree, groups, g1s=('plain', 'default-t1', 'pool2', 'helper'), g2s=('same', 'renamed', 'default', 'pooled', 'grown'),
                 real_read=False, layouts=('direct',)):
        self.real_read = real_read      # True: load::read is the real loader over manifest TEXT (only file reading is modelled)
        # 'direct': build.ninja holds the statements; 'inc': build.ninja is a fixed `include all.ninja` and the generator
        # rewrites all.ninja (real_read only)
        self.layouts = list(layouts)
        self.L = Layout(tree.path)
        self.groups = set(groups)
        self.g1s, self.g2s = list(g1s), list(g2s)
        self.fn_run_impl = I.fn('run_impl', 'run.rs')
        self.install(I)

    def mk_state(self, I, gen, gi):
        L = self.L
        w = World(L)
        for n in gen['order']:
            w.file(n)
        for st in gen['steps']:
            nm, outs, ins, pool = st[:4]
            oo = st[4] if len(st) > 4 else []
            w.add_build([w.file(o) for o in outs], explicit=[w.file(i) for i in ins], order_only=[w.file(i) for i in oo],
                        cmdline=nm.encode(), pool=pool)
        g = w.graph()
        self.worlds.append((w, dict(gen, steps=list(gen['steps']))))
        pools = Agg('SmallMap', [vec(Agg('tuple', [string(k), usize(v)]) for k, v in gen['pools'].items())])
        return L.mk('State', graph=g, db=Opaque('db::Writer'), hashes=Agg('Hashes', [hashmap()]),
                    default=vec(fileid(w.file(d)) for d in gen['default']), pools=pools)

    def install(self, I):
        L = self.L
        H = self

        def bidx(b):
            b = I.deref(b) if not isinstance(b, Agg) else b
            return b.fields[0].v

        def cur():
            return len(H.worlds) - 1

        def stepname(gi, b):
            nm = H.names.get((gi, b))
            return nm if nm is not None else H.worlds[gi][1]['steps'][b][0]

        def name_from_graph(I, work, gi, b):
            """family (b): the step is identified by what the LOADED graph says it produces, not by its position, so
            that a graph that is not the one the text in force declares is noticed"""
            g = L.get(work, 'graph')
            bd = dm_items(L.get(g, 'builds'))[b]
            files = dm_items(L.get(L.get(g, 'files'), 'by_id'))
            outs = [bytes(x.v for x in L.get(files[o.fields[0].v], 'name').fields[0].fields).decode('latin1')
                    for o in L.get(L.get(bd, 'outs'), 'ids').fields]
            ins = [bytes(x.v for x in L.get(files[o.fields[0].v], 'name').fields[0].fields).decode('latin1')
                   for o in L.get(L.get(bd, 'ins'), 'ids').fields]
            for st in H.worlds[gi][1]['steps']:
                if list(st[1]) == outs and list(st[2]) + (list(st[4]) if len(st) > 4 else []) == ins:
                    return st[0]
            if 'C17' in H.groups:
                I.fail('C17:graph-not-from-text-in-force', 'a step producing %r from %r is examined under generation %d, whose text declares no such step' % (
                    outs, ins, gi + 1), extra=H.extra())
            return '?%s' % ','.join(outs)

        def m_parse_args(I, args, callee):
            opts = L.mk('Options', failures_left=none(), parallelism=H.par, explain=BoolV(False), adopt=BoolV(False))
            ba = L.mk('BuildArgs', fake_ninja_compat=BoolV(False), options=opts,
                      build_filename=none() if H.filename is None else some(string(H.filename)),
                      targets=vec(string(t.encode()) for t in H.targets), verbose=BoolV(False))
            return ok(ok(ba))

        def text_order(gen):
            return text_steps(gen)

        def on_real_read(I, args):
            gi = len(H.worlds)
            gen = H.gen1 if gi == 0 else H.gen2
            H.reads.append(conc_bytes(I, as_slice(I, args[0])))
            H.events.append(('load', gi + 1))
            # statements appear in the text in interning order of their first output: that is the BuildId order
            H.worlds.append((None, dict(gen, steps=text_order(gen))))

        def m_read_manifest(I, args, callee):
            name = conc_bytes(I, as_slice(I, args[0]))
            H.file_reads.append((len(H.worlds), name))
            gen = H.worlds[-1][1]
            if H.layout == 'inc':
                if name == b'build.ninja':
                    return ok(Agg('Vec', [IntV(8, c) for c in b'include all.ninja\n'] + [IntV(8, 0)]))
                if name == b'all.ninja':
                    return ok(Agg('Vec', [IntV(8, c) for c in manifest_text(gen).encode()] + [IntV(8, 0)]))
                return err(Opaque('io::Error', ('NotFound',)))
            if name != b'build.ninja':
                return err(Opaque('io::Error', ('NotFound',)))
            return ok(Agg('Vec', [IntV(8, c) for c in manifest_text(gen).encode()] + [IntV(8, 0)]))

        def m_load_read(I, args, callee):
            name = conc_bytes(I, as_slice(I, args[0]))
            H.reads.append(name)
            gi = len(H.worlds)
            gen = H.gen1 if gi == 0 else H.gen2
            H.events.append(('load', gi + 1))
            return ok(H.mk_state(I, gen, gi))

        def m_runner_new(I, args, callee):
            return L.mk('Runner', tx=Opaque('tx'), rx=Opaque('rx'), running=usize(0), tids=Opaque('tids'), parallelism=args[0])

        def m_start(I, args, callee):
            runner = I.deref(args[0])
            b = bidx(args[1])
            gi = cur()
            H.running.append((gi, b))
            H.events.append(('start', gi + 1, stepname(gi, b)))
            gen = H.worlds[gi][1]
            pool = gen['steps'][b][3]
            if pool is not None and 'C04' in H.groups:
                npool = sum(1 for (g_, x) in H.running if gen['steps'][x][3] == pool)
                if npool > gen['pools'].get(pool, 0) > 0:
                    I.fail('C04:over-pool-depth-after-reload', '%d commands of pool %s run at once; the current manifest declares depth %d' % (
                        npool, pool.decode(), gen['pools'][pool]), extra=H.extra())
            rf = L.idx('Runner', 'running')
            runner.fields[rf] = I.binop('Add', runner.fields[rf], usize(1))
            return UNIT

        def m_wait(I, args, callee):
            runner = I.deref(args[0])
            k = I.choose('fin%d' % len(H.events), len(H.running))
            gi, b = H.running.pop(k)
            okk = I.choose('ok%d' % len(H.events), 2) == 1
            H.events.append(('fin', gi + 1, stepname(gi, b), okk))
            if okk:
                H.nsucc += 1
            else:
                H.nfail += 1
            rf = L.idx('Runner', 'running')
            runner.fields[rf] = I.binop('Sub', runner.fields[rf], usize(1))
            result = L.mk('TaskResult', termination=Agg('Termination', [], 'Success' if okk else 'Failure'), output=vec(), discovered_deps=none())
            return L.mk('FinishedTask', tid=usize(0), buildid=buildid(b), span=Opaque('span'), result=result)

        def m_check_dirty(I, args, callee):
            b = bidx(args[1])
            gi = cur()
            if H.real_read and (gi, b) not in H.names:
                H.names[(gi, b)] = name_from_graph(I, I.deref(args[0]), gi, b)
            nm = stepname(gi, b)
            key = (gi, b)
            H.judged[key] = H.judged.get(key, 0) + 1
            if H.judged[key] > 1 and 'C17' in H.groups:
                I.fail('C17:judged-twice', 'step %s of generation %d is judged twice in one invocation' % (nm, gi + 1), extra=H.extra())
            dirty = I.choose('dirty%d_%s' % (gi + 1, nm), 2) == 1
            H.events.append(('judge', gi + 1, nm, dirty))
            return ok(BoolV(dirty))

        def m_record_finished(I, args, callee):
            return ok(UNIT)

        def m_print(I, args, callee):
            try:
                bs = M.models.render_args(I, args[0])
                H.stdout.append(bytes(b.v if b.conc() else 63 for b in bs))
            except Exception:
                H.stdout.append(b'?')
            return UNIT

        def m_stat(I, args, callee):
            """graph::stat as far as run.rs itself may use it (check_build_dirty is cut): the manifest's own file.  Its
            mtime moves when the generator rewrites the top-level file; with the modelled load::read a generator may
            equally leave the top-level file alone and rewrite only a file it includes (symbolic choice, made only if
            the code asks)"""
            from checks import dirtylib as D
            name = conc_bytes(I, as_slice(I, args[0])) or b''
            if name[:2] == b'./':
                name = name[2:]
            if name != b'build.ninja':
                return ok(D.stamp(IntV(64, 1000, True), IntV(32, 0)))
            nreg = sum(1 for e in H.events if e[0] == 'fin' and e[2] == 'regen' and e[3])
            if nreg and not H.real_read:
                if H.untouched is None:
                    H.untouched = I.choose('toplevel_untouched', 2) == 1
                if H.untouched:
                    nreg = 0
            return ok(D.stamp(IntV(64, 1000 + nreg, True), IntV(32, 0)))

        def on_run(I, args):
            H.events.append(('run', 1 + sum(1 for e in H.events if e[0] == 'run')))
        I.hooks['enter:run'] = on_run
        I.hooks['dyn:update'] = lambda I, a, c: UNIT
        for nm in ('task_started', 'task_output', 'task_finished', 'log'):
            I.hooks['dyn:' + nm] = lambda I, a, c: UNIT
        from checks import dblib
        H.disk = dblib.Disk()
        real = []
        if H.real_read:
            for k in [k for k in I.hooks if k.startswith('enterfn:')]:
                I.hooks.pop(k)
            rd = [f for f in I.by_last.get('read', []) if f.file and f.file.endswith('load.rs') and f.line is None and '{closure' not in f.name]
            if len(rd) != 1:
                raise M.Unsupported('load::read not found: %r' % [f.name for f in rd])
            I.hooks['enterfn:' + rd[0].name] = on_real_read
            real = [(r'read_file_with_nul$', m_read_manifest)] + dblib.install(I, H)
        else:
            real = [(r'^(load::)?read$', m_load_read)]
        I.set_overrides(real + [
            (r'(^|::)parse_args$', m_parse_args),
            (r'^(graph::)?stat$', m_stat),
            (r'(^|::)use_fancy$', lambda I, a, c: BoolV(False)),
            (r'DumbConsoleProgress::new$', lambda I, a, c: Agg('DumbConsoleProgress', [a[0], Opaque('cell')])),
            (r'^<DumbConsoleProgress as (progress::)?Progress>::', lambda I, a, c: UNIT),
            (r'(^|::)register_sigint$', lambda I, a, c: UNIT),
            (r'(^|::)was_interrupted$', lambda I, a, c: BoolV(False)),
            (r'^enabled$|trace::enabled$', lambda I, a, c: BoolV(False)),
            (r'^scope::<|^trace::scope::<', lambda I, a, c: I.call_closure(a[1], [])),
            (r'(^|::)Runner::new$', m_runner_new),
            (r'(^|::)Runner::start$', m_start),
            (r'(^|::)Runner::wait::', m_wait),
            (r'(^|::)Work::<.*>::create_parent_dirs$', lambda I, a, c: ok(UNIT)),
            (r'(^|::)Work::<.*>::check_build_dirty$', m_check_dirty),
            (r'(^|::)Work::<.*>::record_finished$', m_record_finished),
            (r'^std::io::_print$|^_print$', m_print),
        ])

    def extra(self):
        return {'g1': self.g1name, 'g2': self.g2name, 'targets': list(self.targets), 'filename': self.filename,
                'events': list(self.events), 'untouched': bool(self.untouched), 'layout': self.layout}

    def run_path(self, I):
        self.worlds = []
        self.reads = []
        self.events = []
        self.running = []
        self.judged = {}
        self.stdout = []
        self.nsucc = self.nfail = 0
        self.untouched = None
        self.file_reads = []
        self.names = {}
        self.layout = self.layouts[I.choose('layout', len(self.layouts))] if len(self.layouts) > 1 else self.layouts[0]
        from checks import dblib
        self.disk = dblib.Disk()
        self.g1name = self.g1s[I.choose('g1', len(self.g1s))]
        self.g2name = self.g2s[I.choose('g2', len(self.g2s))]
        self.gen1 = G1_VARIANTS[self.g1name]()
        self.gen2 = GEN2[self.g2name]()
        self.targets = TARGETS[I.choose('targets', len(TARGETS))]
        self.filename = FILENAMES[I.choose('filename', len(FILENAMES))]
        self.par = I.fresh_int('j', 64)
        I.solver.add(self.par.v != 0)
        res = I.call_fn(self.fn_run_impl, [])
        self.post(I, res)
        return {'g1': self.g1name, 'g2': self.g2name, 'targets': self.targets, 'events': self.events,
                'exit': (res.fields[0].sval() if res.variant == 'Ok' else 'Err'), 'stdout': [s.decode('latin1') for s in self.stdout]}

    # ------------------------------------------------------------------ oracle
    def post(self, I, res):
        G = self.groups
        ev = self.events
        ex = self.extra()

        def fail(g, key, desc):
            if g in G:
                I.fail('%s:%s' % (g, key), desc + '; events=%r stdout=%r' % (ev, self.stdout), extra=ex)
        loads = [i for i, e in enumerate(ev) if e[0] == 'load']
        runs = [i for i, e in enumerate(ev) if e[0] == 'run']
        exit_code = res.fields[0].sval() if res.variant == 'Ok' else None
        errtext = (anyhow_text(I, res.fields[0]) or b'') if res.variant == 'Err' else b''
        if not runs:
            fail('C17', 'manifest-not-checked', 'the manifest is an output of a step but no manifest phase ran')
            return
        p1 = ev[runs[0]:(runs[1] if len(runs) > 1 else len(ev))]
        p1 = [e for e in p1 if e[0] in ('judge', 'start', 'fin')]
        for e in p1:
            if e[2] not in ('regen', 'hs'):
                fail('C17', 'manifest-phase-touches-other-steps', 'while bringing the manifest up to date step %s is examined' % e[2])
        p1_failed = any(e[0] == 'fin' and not e[3] for e in p1)
        p1_ok = any(e[0] == 'fin' and e[3] for e in p1)
        regen_dirty = ('judge', 1, 'regen', True) in p1
        if not regen_dirty and any(e[0] == 'start' and e[2] == 'regen' for e in p1):
            fail('C17', 'generator-ran-needlessly', 'the generator was started although the manifest is up to date')
        if p1_failed:
            last = max(i for i, e in enumerate(ev) if e[0] == 'fin' and not e[3] and e[1] == 1)
            later = [e for e in ev[last + 1:] if e[0] in ('start', 'load', 'run')]
            if later:
                fail('C17', 'continued-after-failed-regeneration', 'bringing the manifest up to date failed but %r happened afterwards' % later)
            if exit_code == 0:
                fail('C17', 'exit-0-after-failed-regeneration', 'bringing the manifest up to date failed and n2 exits 0')
            return
        if p1_ok and len(loads) != 2:
            fail('C17', 'no-reload-after-regeneration', 'a command ran for the manifest but it was not loaded again')
        if not p1_ok and len(loads) != 1:
            fail('C17', 'needless-reload', 'no command ran for the manifest yet it was loaded again')
        gi_final = 2 if len(loads) == 2 else 1
        after = ev[(loads[1] if len(loads) == 2 else runs[0]):]
        p2 = [e for e in (ev[runs[1]:] if len(runs) > 1 else []) if e[0] in ('judge', 'start', 'fin')]
        if len(loads) == 2:
            for e in ev[loads[1]:]:
                if e[0] in ('judge', 'start', 'fin') and e[1] != 2:
                    fail('C17', 'old-graph-after-reload', 'after the reload step %s of the OLD manifest is examined / run' % (e[2],))
        gen = self.gen2 if gi_final == 2 else self.gen1
        files = set(gen['order'])
        prod, deps = {}, {}
        for st_ in gen['steps']:
            for o in st_[1]:
                prod[o] = st_[0]
            deps[st_[0]] = list(st_[2]) + (list(st_[4]) if len(st_) > 4 else [])
        canon = [t[2:] if t.startswith('./') else t for t in self.targets]
        unknown = [t for t in canon if t not in files]
        if unknown:
            if res.variant != 'Err' or b'unknown path requested' not in errtext:
                fail('C18', 'unknown-target-accepted', 'target %r does not occur in the manifest in force (generation %d) but no error is reported (exit %r, %r)' % (unknown[0], gi_final, exit_code, errtext[:80]))
            if any(e[0] == 'start' for e in p2):
                fail('C18', 'built-despite-unknown-target', 'a command ran although target %r is unknown' % unknown[0])
            return
        if res.variant == 'Err':
            fail('C18', 'known-target-rejected', 'every target exists in the manifest in force, yet: %r' % errtext[:100])
            return
        if canon:
            roots = [t for t in canon if t != 'build.ninja']
        elif gen['default']:
            roots = list(gen['default'])
        else:
            roots = [f for f in gen['order'] if f != 'build.ninja']
        want = set()
        stack = [prod[t] for t in roots if t in prod]
        while stack:
            b = stack.pop()
            if b in want:
                continue
            want.add(b)
            stack += [prod[f] for f in deps[b] if f in prod]
        judged2 = set(e[2] for e in p2 if e[0] == 'judge')
        settled1 = set(e[2] for e in p1 if e[0] == 'judge') if len(loads) == 1 else set()
        if not (judged2 <= want) or not (want <= judged2 | settled1):
            ex['want'] = sorted(want)
            fail('C18', 'wrong-closure', 'steps examined for the request %r under generation %d: %r (settled in the manifest phase: %r), expected %r' % (
                self.targets, gi_final, sorted(judged2), sorted(settled1), sorted(want)))
        if judged2 & settled1:
            fail('C17', 'judged-twice', 'steps %r settled while checking the manifest are examined again' % sorted(judged2 & settled1))
        anyfail = self.nfail > 0
        if anyfail:
            if exit_code == 0:
                fail('C05', 'exit-0-after-failure', 'a command failed and n2 exits 0')
        else:
            if exit_code != 0:
                fail('C05', 'nonzero-exit-without-failure', 'no command failed, everything requested was brought up to date, exit status %r' % exit_code)
            line = self.stdout[-1] if self.stdout else b''
            if self.nsucc == 0:
                if b'no work to do' not in line:
                    fail('C19', 'summary', 'no command ran but the summary is %r' % line)
            else:
                want_line = b'ran %d task' % self.nsucc
                if want_line not in line or (b'ran %d tasks' % self.nsucc in line) != (self.nsucc != 1):
                    fail('C19', 'summary', '%d commands completed, summary line %r' % (self.nsucc, line))


def run_run(ctx, out, pid, groups, g1s=None, g2s=None, budget=None, report=None, real_read=False, layouts=('direct',)):
    from lib.driver import Violation
    from lib.mcheck import finish_exploration, load_interp, merge_cov
    I = load_interp(ctx)
    H = Run(I, ctx.tree, groups, g1s or ('plain', 'default-t1', 'pool2', 'helper'), g2s or ('same', 'renamed', 'default', 'pooled', 'grown'),
            real_read=real_read, layouts=layouts)
    ex = M.explore(I, H, jobs=ctx.jobs, time_budget=budget or (1500 if ctx.quick() else 4 * 3600), keep_summaries=6)
    name = ('run_impl with the REAL load::read over manifest text' + ('' if list(layouts) == ['direct'] else ' (layouts %s)' % '/'.join(layouts)) if real_read else 'run_impl') + ' over two manifest generations (%s -> %s), targets %r, -f %r' % ('/'.join(H.g1s), '/'.join(H.g2s), TARGETS, FILENAMES)
    merge_cov(out.coverage, name, ex)
    finish_exploration(out, ex, name)
    for key, lst in ex.failures.items():
        if key.split(':')[0] in ('C04', 'C05', 'C17', 'C18', 'C19') and key.split(':')[0] not in (report or {pid}):
            continue
        for desc, model, extra in lst[:2]:
            nat = native_run(ctx.tree, extra, model) if extra else None
            out.add(Violation('M:run:' + key, '%s -> native: %s' % (desc[:500], nat), replay={'extra': extra, 'model': model, 'native': nat},
                              reproduced=bool(nat and nat.get('confirms'))))
    out.coverage.setdefault('samples', [])
    out.coverage['samples'] = (out.coverage.get('samples') or []) + ex.summaries[:4]
    return ex


# ---------------------------------------------------------------------------------------------------- native replay
def text_steps(gen):
    """statement order of the rendered manifest: user steps in interning order of their first output, the generator's
    own statement last (where generators usually put it)"""
    steps = sorted(gen['steps'], key=lambda st: gen['order'].index(st[1][0]))
    return [st for st in steps if st[0] != 'regen'] + [st for st in steps if st[0] == 'regen']


def manifest_text(gen):
    t = 'rule regen\n  command = sh ./regen.sh\n  generator = 1\nrule cc\n  command = sh ./step.sh $out\n'
    for k, v in gen['pools'].items():
        t += 'pool %s\n  depth = %d\n' % (k.decode(), v)
    # statement order follows the interning order of the outputs
    steps = text_steps(gen)
    for st_ in steps:
        nm, outs, ins, pool = st_[:4]
        if nm == 'regen':
            t += 'build build.ninja: regen gen.in%s\n' % ((' || ' + ' '.join(st_[4])) if len(st_) > 4 else '')
        else:
            t += 'build %s: cc %s\n' % (' '.join(outs), ' '.join(ins))
            if pool:
                t += '  pool = %s\n' % pool.decode()
    for d in gen['default']:
        t += 'default %s\n' % d
    return t


def native_run(tree, extra, model):
    """end-to-end: generation 1 on disk with everything built, then the dirty bits of the path are realised by touching
    inputs / removing outputs, the generator installs generation 2, n2 runs once; commands run and exit status are
    compared with the M path"""
    import os
    import shutil
    import subprocess
    import tempfile
    n2 = tree.n2_bin()
    d = tempfile.mkdtemp(prefix='n2verif-run-')
    try:
        def sh(cmd, **kw):
            return subprocess.run(cmd, shell=True, cwd=d, stdout=subprocess.PIPE, stderr=subprocess.STDOUT, text=True, timeout=60, **kw)
        g1 = G1_VARIANTS[extra['g1']]()
        g2 = GEN2[extra['g2']]()
        # layout: the generator rewrites build.ninja itself, or (extra['untouched']) build.ninja is a fixed
        # `include all.ninja` and the generator rewrites all.ninja only
        inc = bool(extra.get('untouched')) or extra.get('layout') == 'inc'
        target = 'all.ninja' if inc else 'build.ninja'
        if inc:
            open(os.path.join(d, 'build.ninja'), 'w').write('include all.ninja\n')
        open(os.path.join(d, target), 'w').write(manifest_text(g1))
        open(os.path.join(d, 'next.ninja'), 'w').write(manifest_text(g2))
        open(os.path.join(d, 'regen.sh'), 'w').write('echo regen >> ran.log\ncp next.ninja %s\n' % target)
        open(os.path.join(d, 'step.sh'), 'w').write('echo $1 >> ran.log\ntouch $1\n')
        sh('touch -d @1000000000 gen.in s x; touch -d @1000000001 build.ninja')
        # bring generation 1 fully up to date (the generator is not dirty: build.ninja is newer and recorded)
        open(os.path.join(d, 'regen.sh'), 'w').write('echo regen >> ran.log\ntouch build.ninja\n')
        sh('%s t1 u build.ninja' % n2)
        open(os.path.join(d, 'regen.sh'), 'w').write('echo regen >> ran.log\ncp next.ninja %s\n' % target)
        sh('rm -f ran.log')
        ev = extra['events']
        # realise the dirty bits the path chose
        for e in ev:
            if e[0] == 'judge' and e[3]:
                if e[2] == 'regen' and e[1] == 1:
                    sh('touch -d @1000000500 gen.in')
                elif e[1] == 1 or extra['g2'] != 'renamed':
                    out = {'a': 't1', 'b': 'u', 'a2': 't2', 'hs': 'h', 'c': 'c', 'd': 'd'}.get(e[2])
                    if out:
                        sh('rm -f %s' % out)
        if 'want' in extra:
            # closure findings: make every user step out of date so that a skipped (or extra) step shows in what runs
            sh('rm -f t1 t2 u c d h')
        fname = extra['filename']
        cmd = [n2] + (['-f', fname.decode()] if fname else []) + list(extra['targets'])
        r = subprocess.run(cmd, cwd=d, stdout=subprocess.PIPE, stderr=subprocess.STDOUT, text=True, timeout=60)
        ran = open(os.path.join(d, 'ran.log')).read().split() if os.path.exists(os.path.join(d, 'ran.log')) else []
        m_ran = [e[2] for e in ev if e[0] == 'start']
        name2out = {'regen': 'regen', 'a': 't1', 'b': 'u', 'a2': 't2', 'hs': 'h', 'c': 'c', 'd': 'd'}
        res = {'ran': ran, 'rc': r.returncode, 'out': r.stdout.strip()[-160:], 'path_started': [name2out.get(x, x) for x in m_ran]}
        # the native run confirms the finding when it shows the same commands as the failing path
        res['confirms'] = sorted(ran) == sorted(res['path_started'])
        if 'want' in extra:
            regen_dirty = any(e[0] == 'judge' and e[2] == 'regen' and e[1] == 1 and e[3] for e in ev)
            expected = (['regen'] if regen_dirty else []) + [name2out.get(x, x) for x in extra['want'] if x != 'regen']
            res['expected_if_property_held'] = sorted(expected)
            res['confirms'] = sorted(set(ran)) != sorted(set(expected))
        return res
    finally:
        shutil.rmtree(d, ignore_errors=True)
