"""Scheduler harness S (engine M): the real MIR of Work::new, Work::want_file / want_every_file, BuildStates::*,
Work::run, recheck_ready, ready_dependents, StateCounts, DenseMap, SmallMap on a symbolic build graph, with
environment models for the command runner (task::Runner::start / wait), Progress, signal, trace, create_parent_dirs.

S-cut: Work::check_build_dirty is replaced by "phony -> clean, else a symbolic dirty bit" and record_finished by a
monitor (pure scheduling).  The monitor (class Mon) observes the only two places Work::run touches the outside
world - command start and command completion - plus every dirty judgement, progress update and record call.
"""
import itertools

import z3

import mirsym as M
from mirsym import Agg, BoolV, Cell, IntV, Opaque, Ref, UNIT, err, none, ok, some, usize, vec, string
from mirsym.build import Layout, World, buildid, fileid, dm_items

SAMPLE_MOD = 151
STATES = ['Unknown', 'Want', 'Ready', 'Queued', 'Running', 'Done', 'Failed']


class Mon:
    """per-path monitor state"""

    def __init__(self, nb):
        self.nb = nb
        self.starts = [0] * nb
        self.running = [False] * nb
        self.settled = [False] * nb      # finished with Success, or judged clean
        self.failed = [False] * nb
        self.interrupted = False
        self.judged = [0] * nb
        self.recorded = []
        self.nrunning = 0
        self.nfail = 0
        self.nsucc = 0
        self.events = []
        self.updates = 0
        self.last_finished = 0
        self.dirs_before_start = set()
        self.wanted = None
        self.dir_failed = False


class Shape:
    """one family member: how the graph is drawn from symbolic choices"""

    def __init__(self, name, nb, nsrc=1, slots=2, fixed_ins=None, roles='all', outs2=(), phony='sym', pools=None,
                 targets='last', validation_free=False, cyclic=False, kmodes=(None, 'sym'), dirty='sym', par='sym', outcomes=None, dirs_fail=False):
        self.name, self.nb, self.nsrc, self.slots = name, nb, nsrc, slots
        self.fixed_ins = fixed_ins      # {step: [file indices]} or None = symbolic over earlier files
        self.roles = roles              # 'all' | 'ordval' | 'explicit'
        self.outs2 = outs2              # steps with a second output
        self.phony = phony              # 'sym' | 'none'
        self.pools = pools              # None | 'sym'
        self.targets = targets          # 'last' | 'every' | 'sym' (symbolic non-empty subset of outputs)
        self.validation_free = validation_free   # validation slots may name any file (cycles through |@)
        self.cyclic = cyclic            # ordering slots may name any output (real cycles)
        self.kmodes = kmodes            # which -k settings are explored
        self.dirty = dirty              # 'sym' | 'all' (every non-phony step is out of date)
        self.par = par                  # 'sym' (any -j >= 1) | a concrete -j
        self.outcomes = outcomes        # None = the check's outcome set
        self.dirs_fail = dirs_fail      # creating the output directory of a step may fail (symbolic)


ROLE_SPLITS = {
    # (explicit, implicit, order_only); remaining slots are validation
    'all': lambda k: [(e, i, o) for e in range(k + 1) for i in range(k + 1 - e) for o in range(k + 1 - e - i)],
    'ordval': lambda k: [(e, 0, 0) for e in range(k + 1)],
    'explicit': lambda k: [(k, 0, 0)],
    'eov': lambda k: [(k, 0, 0), (0, 0, k), (0, 0, 0)] if k == 1 else [(k, 0, 0), (0, 0, k), (0, 0, 0), (1, 0, 0), (1, 0, 1)],
    'ord3': lambda k: [(k, 0, 0), (0, k, 0), (0, 0, k), (k - 1, 0, 1)] if k > 0 else [(0, 0, 0)],
}

POOLS = [None, b'console', b'p', b'q']     # q is never declared


class Desc:
    """picklable description of one concrete graph + request (what the trace checker and the native replay need)"""

    def __init__(self, H):
        self.nb = H.shape.nb
        self.order_ins = [list(x) for x in H.order_ins]
        self.valid_ins = [list(x) for x in H.valid_ins]
        self.all_ins = [list(x) for x in H.all_ins]
        self.producer = dict(H.producer)
        self.phony = list(H.phony)
        self.pool = list(H.pool)
        self.outs = [list(x) for x in H.outs]
        self.targets = getattr(H, 'cur_targets', None)
        self.has_k = H.kfail is not None
        self.has_depth = H.depth is not None
        self.par = H.shape.par
        self.names = list(H.world.names)

    def closure(self, targets):
        seen = set()
        stack = [self.producer[t] for t in targets if t in self.producer]
        while stack:
            b = stack.pop()
            if b in seen:
                continue
            seen.add(b)
            for f in self.all_ins[b]:
                if f in self.producer:
                    stack.append(self.producer[f])
        return seen

    def has_ordering_cycle(self, targets):
        color = {}

        def visit(b):
            if color.get(b) == 1:
                return True
            if color.get(b) == 2:
                return False
            color[b] = 1
            for f in self.order_ins[b]:
                if f in self.producer and visit(self.producer[f]):
                    return True
            color[b] = 2
            return False
        done = set()

        def walk(b):
            if b in done:
                return False
            if visit(b):
                return True
            done.add(b)
            for f in self.valid_ins[b] + self.order_ins[b]:
                if f in self.producer and walk(self.producer[f]):
                    return True
            return False
        return any(walk(self.producer[t]) for t in targets if t in self.producer)


class Sched:
    def __init__(self, I, tree, shape, groups, cut=True, outcomes=('Success', 'Failure'), adopt=False):
        self.L = Layout(tree.path)
        self.shape = shape
        self.groups = set(groups)        # which properties' assertions are armed
        self.cut = cut
        self.outcomes = shape.outcomes or outcomes
        self.adopt = adopt
        self.fn_new = I.fn('new', 'work.rs', impl='Work')
        self.fn_want = I.fn('want_file', 'work.rs', impl='Work')
        self.fn_want_every = I.fn('want_every_file', 'work.rs', impl='Work')
        self.fn_run = I.fn('run', 'work.rs', impl='Work')
        self.install(I)

    # ------------------------------------------------------------------ graph
    def build_world(self, I):
        sh = self.shape
        L = self.L
        w = World(L)
        srcs = [w.file('s%d' % i) for i in range(sh.nsrc)]
        outs = []
        for b in range(sh.nb):
            o = [w.file('o%d' % b)]
            if b in sh.outs2:
                o.append(w.file('o%db' % b))
            outs.append(o)
        nfiles = len(w.files)
        self.order_ins, self.valid_ins, self.all_ins = [], [], []
        self.phony, self.pool = [], []
        first_out = sh.nsrc
        for b in range(sh.nb):
            if sh.fixed_ins is not None:
                ids = list(sh.fixed_ins.get(b, []))
            else:
                lim = nfiles if sh.cyclic else outs[b][0]     # files created before this step's first output
                ids = [I.choose('in%d_%d' % (b, k), lim) for k in range(sh.slots)]
            k = len(ids)
            splits = ROLE_SPLITS[sh.roles](k)
            e, im, oo = splits[I.choose('split%d' % b, len(splits))]
            nval = k - e - im - oo
            if sh.validation_free and nval:
                for j in range(k - nval, k):
                    ids[j] = I.choose('val%d_%d' % (b, j), nfiles)
            ph = sh.phony == 'sym' and I.choose('phony%d' % b, 2) == 1
            pool = POOLS[I.choose('pool%d' % b, len(POOLS))] if sh.pools == 'sym' and not ph else None
            self.phony.append(ph)
            self.pool.append(pool)
            self.order_ins.append(ids[:e + im + oo])
            self.valid_ins.append(ids[e + im + oo:])
            self.all_ins.append(ids)
            w.add_build(outs[b], explicit=ids[:e], implicit=ids[e:e + im], order_only=ids[e + im:e + im + oo],
                        validation=ids[e + im + oo:], cmdline=None if ph else b'cmd', pool=pool, line=b + 1)
        self.world = w
        self.outs = outs
        self.producer = {}
        for b in range(sh.nb):
            for o in outs[b]:
                self.producer[o] = b
        return w

    def closure(self, targets):
        return Desc(self).closure(targets)

    def has_ordering_cycle(self, targets):
        return Desc(self).has_ordering_cycle(targets)

    def extra_after(self, ev):
        self.mon.events.append(ev)
        try:
            return self.extra()
        finally:
            self.mon.events.pop()

    def extra(self):
        """what a failing path hands to the master for native replay"""
        try:
            return {'cmd': native_args(self), 'desc': Desc(self)}
        except Exception as e:  # noqa
            return {'cmd': None, 'desc': None, 'why': repr(e)}

    # ------------------------------------------------------------------ environment models
    def install(self, I):
        L = self.L
        H = self

        def bidx(bid):
            return I.deref(bid).fields[0].v if not isinstance(bid, Agg) else bid.fields[0].v

        def check(group, cond, key, desc):
            if group in H.groups and not cond:
                I.fail('%s:%s' % (group, key), desc + '; events=%r' % (H.mon.events[-12:],), extra=H.extra())

        def m_runner_new(I, args, callee):
            return L.mk('Runner', tx=Opaque('tx'), rx=Opaque('rx'), running=usize(0), tids=Opaque('tids'), parallelism=args[0])

        def m_start(I, args, callee):
            runner = I.deref(args[0])
            b = bidx(args[1])
            mon = H.mon
            check('C01', mon.starts[b] == 0, 'started-twice', 'step %d is started a second time' % b)
            mon.starts[b] += 1
            for f in H.order_ins[b]:
                p = H.producer.get(f)
                if p is not None and not mon.settled[p]:
                    check('C01', False, 'started-before-producer', 'step %d started before the step producing its input f%d (step %d) finished' % (b, f, p))
                    check('C05', not mon.failed[p], 'started-after-failed-producer', 'step %d started although its producer %d failed' % (b, p))
            check('C01', not H.phony[b], 'phony-started', 'phony step %d was handed to the command runner' % b)
            check('C18', H.mon.wanted is None or b in H.mon.wanted, 'started-outside-closure', 'step %d outside the requested closure is run' % b)
            mon.running[b] = True
            mon.nrunning += 1
            # -j: the real counter is runner.running, compared with the (symbolic) parallelism by the real code
            jv = H.par
            if 'C04' in H.groups:
                I.oblige(I.binop('Le', usize(mon.nrunning), jv), 'C04:over-j', '%d commands running, more than -j' % mon.nrunning, extra=H.extra_after(('start', b)))
            pl = H.pool[b]
            if pl is not None and 'C04' in H.groups:
                npool = sum(1 for x in range(H.shape.nb) if mon.running[x] and H.pool[x] == pl)
                if pl == b'console':
                    check('C04', npool <= 1, 'over-console', '%d commands of the console pool run at once' % npool)
                elif pl == b'p':
                    d = H.depth
                    lim = I.binop('BitOr', I.binop('Eq', d, usize(0)), I.binop('Le', usize(npool), d))
                    I.oblige(lim, 'C04:over-pool-depth', '%d commands of pool p run at once, more than its depth' % npool, extra=H.extra_after(('start', b)))
                elif pl == b'q':
                    check('C04', False, 'undeclared-pool-started', 'step %d naming an undeclared pool was started' % b)
            if 'C05' in H.groups and H.kfail is not None:
                I.oblige(I.binop('Lt', usize(mon.nfail), H.kfail), 'C05:start-after-budget', 'a command is started although %d commands failed (budget reached)' % mon.nfail, extra=H.extra_after(('start', b)))
            check('C16', b in mon.dirs_before_start, 'dirs-not-created', 'output directories of step %d not created before its start' % b)
            mon.events.append(('start', b))
            rf = L.idx('Runner', 'running')
            runner.fields[rf] = I.binop('Add', runner.fields[rf], usize(1))
            return UNIT

        def m_wait(I, args, callee):
            runner = I.deref(args[0])
            mon = H.mon
            running = [b for b in range(H.shape.nb) if mon.running[b]]
            if not running:
                I.fail('C06:wait-with-nothing-running', 'Runner::wait called with no command running (would block forever)', extra=H.extra())
            j = I.choose('fin%d' % len(mon.events), len(running))
            b = running[j]
            oc = H.outcomes[I.choose('out%d' % len(mon.events), len(H.outcomes))]
            mon.running[b] = False
            mon.nrunning -= 1
            if oc == 'Success':
                mon.settled[b] = True
                mon.nsucc += 1
            elif oc == 'Failure':
                mon.failed[b] = True
                mon.nfail += 1
            else:
                mon.interrupted = True
            mon.events.append(('fin', b, oc))
            rf = L.idx('Runner', 'running')
            runner.fields[rf] = I.binop('Sub', runner.fields[rf], usize(1))
            result = L.mk('TaskResult', termination=Agg('Termination', [], oc), output=vec(), discovered_deps=none())
            return L.mk('FinishedTask', tid=usize(0), buildid=buildid(b), span=Opaque('span'), result=result)

        def m_check_dirty(I, args, callee):
            b = bidx(args[1])
            mon = H.mon
            mon.judged[b] += 1
            for f in H.order_ins[b]:
                p = H.producer.get(f)
                if p is not None and not mon.settled[p]:
                    check('C01', False, 'judged-before-producer', 'step %d judged up to date / dirty before its producer %d settled' % (b, p))
            check('C18', mon.wanted is None or b in mon.wanted, 'judged-outside-closure', 'step %d outside the requested closure is examined' % b)
            check('C01', mon.judged[b] == 1, 'judged-twice', 'step %d is judged twice' % b)
            if H.phony[b]:
                mon.settled[b] = True
                mon.events.append(('phony', b))
                return ok(BoolV(False))
            dirty = True if H.shape.dirty == 'all' else I.choose('dirty%d' % b, 2) == 1
            if not dirty:
                mon.settled[b] = True
            mon.events.append(('judge', b, dirty))
            return ok(BoolV(dirty))

        def m_record_finished(I, args, callee):
            b = bidx(args[1])
            mon = H.mon
            res = args[2]
            term = L.get(res, 'termination').variant
            ok_rec = (mon.settled[b] and not mon.failed[b]) or H.adopt
            check('C05', ok_rec and term == 'Success', 'recorded-not-successful', 'step %d is recorded as up to date although its command did not succeed' % b)
            mon.recorded.append(b)
            mon.events.append(('record', b))
            if H.adopt:
                mon.settled[b] = True
            return ok(UNIT)

        def m_create_parent_dirs(I, args, callee):
            outs = M.models.elems(I, M.models.as_slice(I, args[1]))
            for o in outs:
                f = I.deref(o).fields[0].v
                if f in H.producer:
                    H.mon.dirs_before_start.add(H.producer[f])
                    if H.shape.dirs_fail and not H.mon.dir_failed and I.choose('mkdir_fails%d' % H.producer[f], 2) == 1:
                        # environment fault: mkdir fails (read-only tree, dangling symlink parent ...)
                        H.mon.dir_failed = True
                        H.mon.events.append(('mkdir-failed', H.producer[f]))
                        return err(Opaque('io::Error', ('PermissionDenied',)))
            return ok(UNIT)

        def counts_of(work):
            bs = L.get(work, 'build_states')
            states = [s.variant for s in dm_items(L.get(bs, 'states'))]
            counts = L.get(bs, 'counts').fields[0].fields
            return states, counts, bs

        def p_update(I, args, callee):
            mon = H.mon
            mon.updates += 1
            if 'C19' not in H.groups:
                return UNIT
            counts = I.deref(args[1]).fields[0].fields
            states, _, bs = counts_of(H.work)
            order = ['Want', 'Ready', 'Queued', 'Running', 'Done', 'Failed']
            real = {s: 0 for s in order}
            for b, s in enumerate(states):
                if s != 'Unknown' and not H.phony[b]:
                    real[s] += 1
            for i, s in enumerate(order):
                I.oblige(I.binop('Eq', counts[i], usize(real[s])), 'C19:count-' + s.lower(),
                         'progress count of %s steps differs from the %d steps actually in that state' % (s, real[s]), extra=H.extra())
            nrun_nonphony = sum(1 for b in range(H.shape.nb) if mon.running[b])
            I.oblige(I.binop('Eq', counts[3], usize(nrun_nonphony)), 'C19:running-count',
                     'reported running count differs from the %d commands actually executing' % nrun_nonphony, extra=H.extra())
            total = sum(real.values())
            if mon.wanted is not None:
                want_total = sum(1 for b in mon.wanted if not H.phony[b])
                check('C19', total == want_total, 'total', 'total %d differs from the %d non-phony wanted steps' % (total, want_total))
            fin = real['Done'] + real['Failed']
            check('C19', fin >= mon.last_finished, 'finished-decreased', 'finished count decreased from %d to %d' % (mon.last_finished, fin))
            mon.last_finished = fin
            return UNIT

        def p_unit(I, args, callee):
            return UNIT

        I.hooks['dyn:update'] = p_update
        for nm in ('task_started', 'task_output', 'task_finished', 'log'):
            I.hooks['dyn:' + nm] = p_unit
        ovr = [
            (r'^register_sigint$|signal::register_sigint$', lambda I, a, c: UNIT),
            (r'^was_interrupted$|signal::was_interrupted$', lambda I, a, c: BoolV(False)),
            (r'^enabled$|trace::enabled$', lambda I, a, c: BoolV(False)),
            (r'^(task::)?Runner::new$', m_runner_new),
            (r'^(task::)?Runner::start$', m_start),
            (r'^(task::)?Runner::wait::', m_wait),
            (r'^Work::<.*>::create_parent_dirs$', m_create_parent_dirs),
        ]
        if self.cut:
            ovr += [(r'^Work::<.*>::check_build_dirty$', m_check_dirty),
                    (r'^Work::<.*>::record_finished$', m_record_finished)]
        self.overrides = ovr
        I.set_overrides(ovr)

    # ------------------------------------------------------------------ one path
    def mk_work(self, I):
        L = self.L
        sh = self.shape
        w = self.build_world(I)
        g = w.graph()
        # -j: any value >= 1; -k: none or any value >= 1; pool depth: any value
        if sh.par == 'sym':
            self.par = I.fresh_int('j', 64)
            I.solver.add(self.par.v != 0)
        else:
            self.par = usize(sh.par)
        km = sh.kmodes[I.choose('kmode', len(sh.kmodes))]
        if km is None:
            self.kfail = None
            fl = none()
        else:
            self.kfail = I.fresh_int('k', 64)
            I.solver.add(self.kfail.v != 0)
            fl = some(self.kfail)
        opts = L.mk('Options', failures_left=fl, parallelism=self.par, explain=BoolV(False), adopt=BoolV(self.adopt))
        pools = []
        self.depth = None
        if sh.pools == 'sym':
            self.depth = I.fresh_int('depth', 64)
            pools.append(Agg('tuple', [string(b'p'), self.depth]))
        prog = Ref(Cell(Agg('ProgressMon', [])), (), dyn_ty='&ProgressMon')
        hashes = Agg('Hashes', [Agg('HashMap', [])])
        work = I.call_fn(self.fn_new, [g, hashes, Opaque('db::Writer'), Ref(Cell(opts), ()), prog, Agg('SmallMap', [vec(pools)])])
        self.work = work
        return work

    def pick_targets(self, I):
        sh = self.shape
        allouts = [o for os_ in self.outs for o in os_]
        if sh.targets == 'last':
            return [self.outs[-1][0]]
        if sh.targets == 'every':
            return None
        subsets = [list(c) for r in (1, 2) for c in itertools.combinations(allouts, r)]
        return subsets[I.choose('targets', len(subsets))]

    def run_path(self, I):
        L = self.L
        sh = self.shape
        self.mon = mon = Mon(sh.nb)
        work = self.mk_work(I)
        wc = Cell(work)
        targets = self.pick_targets(I)
        self.cur_targets = targets
        if targets is None:
            r = I.call_fn(self.fn_want_every, [Ref(wc, ()), none()])
            tfiles = [o for os_ in self.outs for o in os_]
        else:
            r = ok(UNIT)
            for t in targets:
                r = I.call_fn(self.fn_want, [Ref(wc, ()), fileid(t)])
                if r.variant != 'Ok':
                    break
            tfiles = targets
        cyc = self.has_ordering_cycle(tfiles)
        if r.variant == 'Err':
            msg = M.models.anyhow_text(I, r.fields[0]) or b''
            if 'C06' in self.groups:
                if not cyc:
                    I.fail('C06:false-cycle', 'dependency cycle reported for an acyclic request: %r' % msg, extra=self.extra())
                if not msg.startswith(b'dependency cycle: ') or not self.cycle_text_ok(msg):
                    I.fail('C06:cycle-text', 'cycle error does not spell a real cycle: %r' % msg, extra=self.extra())
            return {'shape': sh.name, 'events': [], 'result': 'cycle-error', 'states': []}
        if cyc:
            if 'C06' in self.groups:
                I.fail('C06:cycle-accepted', 'a dependency cycle among the requested steps was accepted', extra=self.extra())
            return {'shape': sh.name, 'events': [], 'result': 'cycle-missed', 'states': []}
        bs = L.get(work, 'build_states')
        states = [s.variant for s in dm_items(L.get(bs, 'states'))]
        wanted = self.closure(tfiles)
        mon.wanted = wanted
        if 'C18' in self.groups:
            got = set(b for b, s in enumerate(states) if s != 'Unknown')
            if got != wanted:
                I.fail('C18:closure', 'steps considered %r differ from the requested closure %r' % (sorted(got), sorted(wanted)), extra=self.extra())
        res = I.call_fn(self.fn_run, [Ref(wc, ())])
        states = [s.variant for s in dm_items(L.get(L.get(work, 'build_states'), 'states'))]
        self.post(I, res, states, work)
        summ = {'shape': sh.name, 'events': mon.events, 'result': res.variant + (':' + str(res.fields[0].v) if res.variant == 'Ok' else ''),
                'states': states}
        import zlib
        if zlib.crc32(repr(I.decisions).encode()) % SAMPLE_MOD == 0 and not I.failures:
            # a passing path picked for native trace validation
            summ['validate'] = {'cmd': native_args(self), 'desc': Desc(self), 'model': I.model_now()}
        return summ

    def cycle_text_ok(self, msg):
        names = msg[len(b'dependency cycle: '):].split(b' -> ')
        if len(names) < 2 or names[0] != names[-1]:
            return False
        idx = {n: i for i, n in enumerate(self.world.names)}
        for a, b in zip(names, names[1:]):
            if a not in idx or b not in idx:
                return False
            # a is an output of a step that has b as an ordering input
            pa = self.producer.get(idx[a])
            if pa is None or idx[b] not in self.order_ins[pa]:
                return False
        return True

    def post(self, I, res, states, work):
        mon = self.mon
        L = self.L
        G = self.groups

        def fail(g, key, desc):
            if g in G:
                I.fail('%s:%s' % (g, key), desc + '; events=%r states=%r' % (mon.events[-14:], states), extra=self.extra())
        if mon.dir_failed:
            if res.variant == 'Ok' and res.fields[0].v is True:
                fail('C05', 'success-despite-mkdir-failure', 'an output directory could not be created, yet the build reports success')
            return
        if res.variant == 'Err':
            msg = M.models.anyhow_text(I, res.fields[0]) or b''
            if b'unknown pool' in msg:
                bad = [b for b in range(self.shape.nb) if self.pool[b] == b'q' and ('judge', b, True) in mon.events]
                if not bad:
                    fail('C04', 'unknown-pool-error-unjustified', 'unknown pool error without a dirty step naming an undeclared pool')
                return
            fail('C06', 'run-error', 'Work::run returned an error: %r' % msg)
            return
        okv = res.fields[0].v
        anyfail = any(mon.failed) or mon.interrupted
        for b in range(self.shape.nb):
            if self.pool[b] == b'q' and ('judge', b, True) in mon.events:
                fail('C04', 'unknown-pool-not-reported', 'dirty step %d names an undeclared pool but no error was reported' % b)
        if okv is True:
            if anyfail:
                fail('C05', 'success-despite-failure', 'run() reports success although a command failed or was interrupted')
            for b in mon.wanted:
                if states[b] != 'Done':
                    fail('C06', 'success-with-unfinished-step', 'run() reports success but wanted step %d is %s' % (b, states[b]))
        else:
            if not anyfail:
                fail('C05', 'failure-without-cause', 'run() reports failure although no command failed')
        if not anyfail:
            if okv is not True:
                fail('C06', 'no-failure-but-unsuccessful', 'no command failed, yet the build is not reported successful')
        # containment / budget
        if anyfail and not mon.interrupted and ('C05' in G or 'C06' in G):
            # wanted steps not downstream of a failure must be brought up to date unless the budget was reached
            down = set()
            changed = True
            while changed:
                changed = False
                for b in range(self.shape.nb):
                    if b in down:
                        continue
                    if mon.failed[b] or any(self.producer.get(f) in down for f in self.order_ins[b]):
                        down.add(b)
                        changed = True
            room = self.kfail is None or I.check_with(z3.ULE(self.kfail.v, mon.nfail)) == z3.unsat
            if room:
                for b in mon.wanted:
                    if b not in down and states[b] != 'Done':
                        fail('C05', 'independent-step-abandoned', 'budget not reached, yet wanted step %d (not downstream of a failure) is left %s' % (b, states[b]))
                        fail('C06', 'stopped-with-runnable-work', 'the build stopped although step %d (not downstream of a failure) could still run: it is left %s' % (b, states[b]))
        for b in range(self.shape.nb):
            if mon.failed[b] and b in mon.recorded:
                fail('C05', 'failed-step-recorded', 'failed step %d was recorded as up to date' % b)
        if 'C19' in G:
            tr = L.get(work, 'tasks_run')
            I.oblige(I.binop('Eq', tr, usize(mon.nsucc)), 'C19:tasks-run', 'tasks_run differs from the %d commands that completed successfully' % mon.nsucc, extra=self.extra())
        if 'C01' in G:
            for b in range(self.shape.nb):
                if mon.starts[b] > 1:
                    fail('C01', 'started-twice', 'step %d started %d times' % (b, mon.starts[b]))


# ---------------------------------------------------------------------------------------------------- families
def families(tier):
    q = tier == 'quick'
    fams = [
        Shape('two steps, every input wiring and role split', 2, nsrc=1, slots=2, roles='all', phony='sym', targets='last'),
        Shape('chain of three', 3, fixed_ins={0: [0], 1: [1], 2: [2]}, roles='ord3', phony='none', targets='last'),
        Shape('fan-in: two producers, one consumer', 3, fixed_ins={0: [0], 1: [0], 2: [1, 2]}, roles='all', phony='none', targets='last'),
        Shape('diamond', 4, fixed_ins={0: [0], 1: [1], 2: [1], 3: [2, 3]}, roles='ord3', phony='none', targets='last'),
        Shape('two-output producer with two consumers and a final step', 4, outs2=(0,),
              fixed_ins={0: [0], 1: [1, 2], 2: [1, 2], 3: [3, 4]}, roles='explicit', phony='none', targets='last'),
    ]
    return fams


def fault_families(tier):
    fams = [
        Shape('three independent steps; creating an output directory may fail', 3, fixed_ins={0: [0], 1: [0], 2: [0]},
              roles='explicit', phony='none', targets='every', dirs_fail=True, kmodes=(None, 'sym')),
    ]
    return fams


def pool_families(tier):
    return [
        Shape('three independent steps, symbolic pool assignment and depth', 3, fixed_ins={0: [0], 1: [0], 2: [0]},
              roles='explicit', phony='none', pools='sym', targets='every'),
        Shape('producer then two pooled consumers', 3, fixed_ins={0: [0], 1: [1], 2: [1]}, roles='explicit', phony='none',
              pools='sym', targets='every'),
    ]


def closure_families(tier):
    return [
        Shape('three steps, one input slot each (explicit / order-only / validation naming any file), symbolic target subset', 3,
              nsrc=1, slots=1, roles='eov', phony='none', targets='sym', validation_free=True, kmodes=(None,), dirty='all', par=1, outcomes=('Success',)),
        Shape('three steps, two slots, symbolic target subset', 3, nsrc=1, slots=2, roles='eov', phony='none', targets='sym',
              kmodes=(None,), dirty='all', par=1, outcomes=('Success',)),
        Shape('three steps, build everything', 3, nsrc=1, slots=1, roles='eov', phony='sym', targets='every',
              validation_free=True, kmodes=(None,), dirty='all', par=1, outcomes=('Success',)),
    ]


def cycle_families(tier):
    return [
        Shape('three steps, the single input of each may name any file (ordering cycles and validation cycles)', 3, nsrc=1,
              slots=1, roles='eov', phony='none', targets='sym', cyclic=True, validation_free=True, kmodes=(None,), dirty='all', par=1, outcomes=('Success',)),
        Shape('two-output step in a possible cycle', 2, nsrc=1, slots=1, outs2=(0,), roles='eov', phony='none',
              targets='sym', cyclic=True, validation_free=True, kmodes=(None,), dirty='all', par=1, outcomes=('Success',)),
    ]


# ---------------------------------------------------------------------------------------------------- native replay
def native_args(H):
    """the `sched ...` command that replays this path natively (graph, knobs from the model, dirty bits, script)"""
    sh = H.shape
    w = H.world
    steps = []
    L = H.L
    for b, bd in enumerate(w.builds):
        ins = [x.fields[0].v for x in L.get(L.get(bd, 'ins'), 'ids').fields]
        e = L.get(L.get(bd, 'ins'), 'explicit').v
        im = L.get(L.get(bd, 'ins'), 'implicit').v
        oo = L.get(L.get(bd, 'ins'), 'order_only').v
        steps.append('%s:%s:%d:%d:%d:%d:%s' % (','.join(str(o) for o in H.outs[b]), ','.join(str(i) for i in ins), e, im, oo,
                                                 1 if H.phony[b] else 0, (H.pool[b] or b'-').decode()))
    graph = '%d;%s' % (len(w.files), '/'.join(steps))
    mon = H.mon
    dirty = ['0'] * sh.nb
    script = []
    for ev in mon.events:
        if ev[0] == 'judge' and ev[2]:
            dirty[ev[1]] = '1'
    # script: index of the finishing step among the running ones (increasing step order)
    running = []
    for ev in mon.events:
        if ev[0] == 'start':
            running.append(ev[1])
        elif ev[0] == 'fin':
            order = sorted(running)
            script.append('%d:%s' % (order.index(ev[1]), ev[2][0]))
            running.remove(ev[1])
    k = '-' if H.kfail is None else '{k}'
    depth = '-' if H.depth is None else '{depth}'
    tg = getattr(H, 'cur_targets', None)
    targets = 'every' if tg is None else ','.join(str(t) for t in tg)
    jj = '{j}' if H.shape.par == 'sym' else str(H.shape.par)
    mk = [e[1] for e in mon.events if e[0] == 'mkdir-failed']
    tail = (' mkdirfail=%d' % mk[0]) if mk else ''
    return 'sched %s %s %s %s %s %s %s%s' % (graph, targets, jj, k, depth, ''.join(dirty), ','.join(script) or '-',
                                             (' adopt' if H.adopt else ' run') + tail)


def fill_cmd(template, model):
    return template.format(j=(model.get('j', 1) or 1) if '{j}' in template else 1, k=(model.get('k', 1) or 1), depth=model.get('depth', 0))


def parse_native(ans):
    """native answer -> dict(result, want_err, wanted, states, tasks_run, events)"""
    import re
    m = re.match(r'^(result=\S+|want=\S+) wanted=(\S*) states=(\S*) tasks_run=(\d+) events= ?(.*)$', ans)
    if not m:
        return None
    evs = []
    for tok in m.group(5).split():
        p = tok.split(':')
        if p[0] == 'start':
            evs.append(('start', int(p[1])))
        elif p[0] == 'fin':
            evs.append(('fin', int(p[1]), {'S': 'Success', 'F': 'Failure', 'I': 'Interrupted'}[p[2]]))
        elif p[0] == 'judge':
            evs.append(('judge', int(p[1]), p[2] == '1'))
        elif p[0] == 'phony':
            evs.append(('phony', int(p[1])))
        elif p[0] == 'record':
            evs.append(('record', int(p[1])))
        elif p[0] == 'update':
            evs.append(('update', tuple(int(x) for x in p[1].split(',')), int(p[2])))
        elif p[0] == 'mkdir-failed':
            evs.append(('mkdir-failed', int(p[1])))
    return {'head': m.group(1), 'wanted': m.group(2).split(','), 'states': m.group(3).split(','),
            'tasks_run': int(m.group(4)), 'events': evs}


def trace_violations(H, nat, model):
    # H: a Desc
    """independent re-evaluation of the property predicates on a NATIVE trace (plain Python over the event list)"""
    nb = H.nb
    out = set()
    settled = [False] * nb
    failed = [False] * nb
    running = set()
    starts = [0] * nb
    judged = [0] * nb
    nfail = nsucc = 0
    interrupted = False
    j = H.par if H.par != 'sym' else (model.get('j', 1) or 1)
    k = None if not H.has_k else (model.get('k', 1) or 1)
    depth = None if not H.has_depth else model.get('depth', 0)
    wanted = set(b for b, s in enumerate(nat['wanted']) if s != 'Unknown')
    tg = H.targets
    tfiles = [o for os_ in H.outs for o in os_] if tg is None else tg
    clos = H.closure(tfiles)
    if nat['head'].startswith('want=Err'):
        if not H.has_ordering_cycle(tfiles):
            out.add('C06:false-cycle')
        return out
    if H.has_ordering_cycle(tfiles):
        out.add('C06:cycle-accepted')
        return out
    if wanted != clos:
        out.add('C18:closure')
    last_fin = 0
    dirty_q = set()
    states = {b: nat['wanted'][b] for b in range(nb)}
    for ev in nat['events']:
        if ev[0] == 'start':
            b = ev[1]
            if starts[b]:
                out.add('C01:started-twice')
            starts[b] += 1
            for f in H.order_ins[b]:
                p = H.producer.get(f)
                if p is not None and not settled[p]:
                    out.add('C01:started-before-producer')
                    if failed[p]:
                        out.add('C05:started-after-failed-producer')
            if H.phony[b]:
                out.add('C01:phony-started')
            if b not in clos:
                out.add('C18:started-outside-closure')
            running.add(b)
            if len(running) > j:
                out.add('C04:over-j')
            pl = H.pool[b]
            if pl is not None:
                npool = sum(1 for x in running if H.pool[x] == pl)
                if pl == b'console' and npool > 1:
                    out.add('C04:over-console')
                if pl == b'p' and depth and npool > depth:
                    out.add('C04:over-pool-depth')
                if pl == b'q':
                    out.add('C04:undeclared-pool-started')
            if k is not None and nfail >= k:
                out.add('C05:start-after-budget')
        elif ev[0] == 'fin':
            b = ev[1]
            running.discard(b)
            if ev[2] == 'Success':
                settled[b] = True
                nsucc += 1
            elif ev[2] == 'Failure':
                failed[b] = True
                nfail += 1
            else:
                interrupted = True
        elif ev[0] in ('judge', 'phony'):
            b = ev[1]
            judged[b] += 1
            if judged[b] > 1:
                out.add('C01:judged-twice')
            for f in H.order_ins[b]:
                p = H.producer.get(f)
                if p is not None and not settled[p]:
                    out.add('C01:judged-before-producer')
            if b not in clos:
                out.add('C18:judged-outside-closure')
            if ev[0] == 'phony' or not ev[2]:
                settled[b] = True
            else:
                dirty_q.add(b)
        elif ev[0] == 'record':
            b = ev[1]
            if failed[b] or not settled[b]:
                out.add('C05:recorded-not-successful')
                out.add('C05:failed-step-recorded')
        elif ev[0] == 'update':
            counts, nrun = ev[1], ev[2]
            if counts[3] != len(running):
                out.add('C19:running-count')
            fin = counts[4] + counts[5]
            if fin < last_fin:
                out.add('C19:finished-decreased')
            last_fin = fin
            if sum(counts) != sum(1 for b in clos if not H.phony[b]):
                out.add('C19:total')
    fs = nat['states']
    head = nat['head']
    anyfail = any(failed) or interrupted
    unknown_pool = [b for b in dirty_q if H.pool[b] == b'q']
    if any(e[0] == 'mkdir-failed' for e in nat['events']):
        if head == 'result=Ok(true)':
            out.add('C05:success-despite-mkdir-failure')
        return out
    if head.startswith('result=Err'):
        if 'unknown_pool' in head:
            if not unknown_pool:
                out.add('C04:unknown-pool-error-unjustified')
        else:
            out.add('C06:run-error')
        return out
    if unknown_pool:
        out.add('C04:unknown-pool-not-reported')
    okv = head == 'result=Ok(true)'
    if okv and anyfail:
        out.add('C05:success-despite-failure')
    if okv:
        for b in clos:
            if fs[b] != 'Done':
                out.add('C06:success-with-unfinished-step')
    if not okv and not anyfail:
        out.add('C05:failure-without-cause')
        out.add('C06:no-failure-but-unsuccessful')
    if anyfail and not interrupted and (k is None or nfail < k):
        down = set()
        ch = True
        while ch:
            ch = False
            for b in range(nb):
                if b not in down and (failed[b] or any(H.producer.get(f) in down for f in H.order_ins[b])):
                    down.add(b)
                    ch = True
        for b in clos:
            if b not in down and fs[b] != 'Done':
                out.add('C05:independent-step-abandoned')
                out.add('C06:stopped-with-runnable-work')
    if nat['tasks_run'] != nsucc:
        out.add('C19:tasks-run')
    # counts per state are compared against the final states only through the update events' invariants above
    return out


def events_equal(mev, nev):
    """M path events vs native events (update events are native-only)"""
    nat = [e for e in nev if e[0] != 'update']
    return [tuple(e) for e in mev] == [tuple(e) for e in nat]


def run_check(ctx, out, pid, shapes, groups, cut=True, outcomes=('Success', 'Failure'), adopt=False, max_validate=20,
              budget=None):
    """explores every shape with the assertion groups armed; replays failing paths and a sample of passing paths"""
    from lib.driver import Violation
    from lib.mcheck import Replayer, finish_exploration, load_interp, merge_cov
    I = load_interp(ctx)
    rep = Replayer(ctx.tree)
    cov = out.coverage
    states = trans = validated = mismatched = 0
    samples = []
    for sh in shapes:
        H = Sched(I, ctx.tree, sh, groups, cut=cut, outcomes=outcomes, adopt=adopt)
        tovalidate = []

        def on_result(s, tv=tovalidate):
            v = s.pop('validate', None)
            if v is not None and len(tv) < max_validate:
                tv.append((s, v))
        ex = M.explore(I, H, jobs=ctx.jobs, time_budget=budget or (1500 if ctx.quick() else 5 * 3600), keep_summaries=4,
                       on_result=on_result)
        for s_ in ex.summaries:
            s_.pop('validate', None)
        merge_cov(cov, sh.name, ex)
        finish_exploration(out, ex, sh.name)
        states += ex.paths
        trans += ex.queries
        samples += [{'shape': s_['shape'], 'events': s_['events'], 'result': s_['result']} for s_ in ex.summaries[:2] if isinstance(s_, dict)]
        # native validation of passing traces: the real build must take exactly the path M predicted
        for s_, v in tovalidate:
            cmd = fill_cmd(v['cmd'], v['model'] or {})
            hashdep = any(k.startswith('hashorder') for k in (v['model'] or {}))
            nat = None
            same = False
            # the iteration order of std's HashSet is random per instance: a path that depends on it is retried
            for attempt in range(30 if hashdep else 1):
                nat = parse_native(rep.ask(cmd))
                same = nat is not None and events_equal(s_['events'], nat['events'])
                if same:
                    break
            validated += 1
            if not same:
                mismatched += 1
                out.inconclusive.append('%s: native trace differs from the path M explored: `%s` -> %s (M: %r)' % (
                    sh.name, cmd, (nat or {}).get('events'), s_['events']))
        # failing paths
        for key, lst in ex.failures.items():
            if not key.startswith(pid + ':') and key.split(':')[0] in ('C01', 'C04', 'C05', 'C06', 'C18', 'C19'):
                continue
            for desc, model, extra in lst[:2]:
                if not extra or not extra.get('cmd') or model is None:
                    ans = 'no native script for this failure (%s)' % ((extra or {}).get('why'),)
                    out.add(Violation('M:sched:' + key, desc[:400] + ' -> ' + ans, replay={}, reproduced=False))
                    continue
                cmd = fill_cmd(extra['cmd'], model)
                hashdep = any(k.startswith('hashorder') for k in model)
                validated += 1
                bad = False
                got = set()
                for attempt in range(40 if hashdep else 1):
                    ans = rep.ask(cmd)
                    nat = parse_native(ans)
                    if nat is None:
                        bad = ans.startswith('PANIC') or ans.startswith('ABORT')
                        got = set()
                    else:
                        got = trace_violations(extra['desc'], nat, model)
                        bad = key in got or (key.split(':')[0] not in ('C01', 'C04', 'C05', 'C06', 'C18', 'C19') and bool(got))
                    if bad:
                        break
                out.add(Violation('M:sched:' + key, '%s; native `%s` -> %s' % (desc[:300], cmd, ans[:300]),
                                  replay={'cmd': cmd, 'key': key, 'native_violations': sorted(got)}, reproduced=bad))
    rep.close()
    cov.update({'states': states, 'transitions': trans, 'traces_validated_against_impl': validated,
                'traces_mismatched': mismatched, 'samples': samples[:10] or [{'note': 'no path closed'}]})
    return cov


def replay_cex(ctx, cex):
    from lib.mcheck import Replayer
    rep = Replayer(ctx.tree)
    ans = rep.ask(cex['replay']['cmd'])
    print('native: ' + ans[:400])
    print('REPRODUCED (as recorded: %s)' % cex['replay'].get('native_violations'))
    return 1
