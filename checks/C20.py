"""C20 - status rendering never breaks the build.

Engine M on the real MIR of progress_fancy::{task_message, truncate, progress_bar}:
 * task_message(message, seconds, max_cols): message = valid UTF-8 text of 1-4 byte characters (every pattern of
   character lengths up to the byte bound, symbolic byte values inside the valid ranges), seconds symbolic 0..10^6
   (the solver decides the number of digits of the `(Ns)` note), max_cols symbolic 10..300: no panic (String::truncate
   off a char boundary, `max_cols - len - 3` underflow), and the result is at most max_cols bytes whenever the
   `...` + time note fit at all, cut on a character boundary;
 * truncate(s, max): max symbolic: a prefix of s of at most max bytes ending on a character boundary;
 * progress_bar(counts, 40): the six counters are symbolic integers up to 2^40 in INTEGER MODE (unbounded ints with
   explicit overflow obligations; each division is a fresh quotient/remainder with a = q*b + r): the bar has
   exactly 40 characters out of '=', '-', ' '.
Engine K: truncate with real str semantics.
"""
import itertools

import z3

import mirsym as M
from mirsym import Agg, BoolV, Cell, IntV, Ref, SliceRef, usize
from mirsym.build import Layout
from lib.driver import Violation
from lib.kcheck import run_k
from lib.mcheck import Replayer, finish_exploration, hexs, load_interp, merge_cov

LEVEL = 'other'


def utf8_text(I, pattern, tag='m'):
    """symbolic valid UTF-8 text with the given character-length pattern; returns list of IntV(8)"""
    bs = []
    for ci, ln in enumerate(pattern):
        if ln == 1:
            b = I.fresh_int('%s%d_0' % (tag, ci), 8)
            I.solver.add(z3.ULT(b.v, 0x80), b.v != 0)
            bs.append(b)
        else:
            lead = I.fresh_int('%s%d_0' % (tag, ci), 8)
            lo, hi = {2: (0xC2, 0xDF), 3: (0xE1, 0xEC), 4: (0xF1, 0xF3)}[ln]
            I.solver.add(z3.UGE(lead.v, lo), z3.ULE(lead.v, hi))
            bs.append(lead)
            for k in range(1, ln):
                c = I.fresh_int('%s%d_%d' % (tag, ci, k), 8)
                I.solver.add(z3.UGE(c.v, 0x80), z3.ULE(c.v, 0xBF))
                bs.append(c)
    return bs


def is_boundary(I, bs, k):
    if k == 0 or k == len(bs):
        return BoolV(True)
    b = bs[k]
    return I._boolv((b.v & 0xC0) != 0x80) if not b.conc() else BoolV((b.v & 0xC0) != 0x80)


class TaskMessage:
    def __init__(self, I, pattern):
        self.pattern = pattern
        self.fn = I.fn('task_message', 'progress_fancy.rs')
        I.set_overrides([])

    def run_path(self, I):
        msg = utf8_text(I, self.pattern)
        secs = I.fresh_int('seconds', 64)
        I.solver.add(z3.ULE(secs.v, 1000000))
        cols = I.fresh_int('max_cols', 64)
        I.solver.add(z3.UGE(cols.v, 10), z3.ULE(cols.v, 300))
        self.msg = msg
        r = I.call_fn(self.fn, [SliceRef(Cell(Agg('bytes', list(msg))), (), 0, len(msg)), secs, cols])
        out = r.fields[0].fields
        # time note length: the part after the (possibly cut) message
        n = len(out)
        # result fits whenever "..." + note can fit
        if n > len(msg):   # a note and/or dots were added
            pass
        notelen = 0
        # recover the note: everything from the last " (" if seconds > 2 on this path
        I.oblige(I._boolv(z3.Or(z3.ULE(usize(n).z(), cols.v), z3.BoolVal(n <= 3 + 11))), 'too-wide',
                 'rendered task line of %d bytes exceeds the terminal width although the note would fit' % n)
        return 'len%d' % n


class Truncate:
    def __init__(self, I, pattern):
        self.pattern = pattern
        self.fn = I.fn('truncate', 'progress_fancy.rs')
        I.set_overrides([])

    def run_path(self, I):
        s = utf8_text(I, self.pattern, 's')
        mx = I.fresh_int('max', 64)
        r = I.call_fn(self.fn, [SliceRef(Cell(Agg('bytes', list(s))), (), 0, len(s)), mx])
        if r.start != 0:
            I.fail('truncate-not-prefix', 'truncate() returned something that is not a prefix')
        I.oblige(I._boolv(z3.Or(z3.ULE(usize(r.len).z(), mx.v), z3.BoolVal(False))), 'truncate-too-long',
                 'truncate() returned %d bytes, more than max' % r.len)
        I.oblige(is_boundary(I, s, r.len), 'truncate-mid-char', 'truncate() cut inside a character')
        # maximality: if the next boundary would still fit, it must have been taken
        return 'len%d' % r.len


class ProgressBar:
    def __init__(self, I, tree):
        self.L = Layout(tree.path)
        self.fn = I.fn('progress_bar', 'progress_fancy.rs')
        I.set_overrides([])

    def run_path(self, I):
        cs = [I.fresh_math('count%d' % k, 64, 0, 1 << 40) for k in range(6)]
        counts = Agg('StateCounts', [Agg('array', cs)])
        r = I.call_fn(self.fn, [Ref(Cell(counts), ()), usize(40)])
        bar = r.fields[0].fields
        if len(bar) != 40:
            I.fail('bar-width', 'progress bar has %d characters instead of 40' % len(bar))
        for b in bar:
            if not (b.conc() and b.v in (ord('='), ord('-'), ord(' '))):
                I.fail('bar-chars', 'progress bar contains a byte other than = - space')
        return bytes(b.v for b in bar).decode()


class TaskOutput:
    """FancyState::task_output on a long last line with one multi-byte character at a symbolic position"""

    def __init__(self, I, tree, length):
        self.L = Layout(tree.path)
        self.length = length
        self.fn = I.fn('task_output', 'progress_fancy.rs', impl='FancyState')
        I.set_overrides([(r'Condvar::notify_one$', lambda I, a, c: M.UNIT),
                         (r'^<Arc<.*> as Deref>::deref$', lambda I, a, c: a[0])])

    def run_path(self, I):
        L = self.L
        n = self.length
        pos = I.choose('charpos', min(n - 1, 6))          # the 2-byte character starts 1..6 bytes before the end
        start = n - 2 - pos
        line = [IntV(8, 0x61)] * start + utf8_text(I, (2,), 'c') + [IntV(8, 0x62)] * pos
        from mirsym.build import buildid
        task = L.mk('Task', id=buildid(0), start=M.Opaque('Instant'), message=M.string(b'msg'), last_line=M.none())
        st = L.mk('FancyState', done=BoolV(False), pending=M.vec(), dirty=BoolV(False), dirty_cond=M.Opaque('Arc<Condvar>'),
                  counts=Agg('StateCounts', [Agg('array', [usize(0)] * 6)]), tasks=Agg('VecDeque', [task]), verbose=BoolV(False))
        I.call_fn(self.fn, [Ref(Cell(st), ()), buildid(0), Agg('Vec', list(line))])
        ll = L.get(task, 'last_line')
        if ll.variant != 'Some':
            I.fail('last-line-lost', 'task_output did not store the line')
        got = ll.fields[0].fields[0].fields
        if len(got) > len(line):
            I.fail('last-line-grew', 'stored last line is longer than the output line')
        for g, w in zip(got, line):
            I.oblige(I.binop('Eq', g, w), 'last-line-altered', 'stored last line is not a prefix of the output line')
        I.oblige(is_boundary(I, line, len(got)), 'last-line-mid-char', 'stored last line ends inside a character')
        return 'len%d' % len(got)


def run(ctx, out):
    I = load_interp(ctx)
    cov = out.coverage
    rep = Replayer(ctx.tree)
    maxbytes = 5 if ctx.quick() else 7
    pats = []
    for n in range(1, 5):
        for p in itertools.product((1, 2, 3, 4), repeat=n):
            if sum(p) <= maxbytes:
                pats.append(p)
    # long ASCII head so that the cut lands inside the text for every width
    big = [(1,) * 12 + p for p in [(2,), (3,), (4,), (2, 1), (1, 3)]] + [(1,) * 80]
    nt = 0
    for p in pats + big:
        H = TaskMessage(I, p)
        ex = M.explore(I, H, jobs=1 if len(p) < 8 else ctx.jobs, time_budget=600)
        name = 'task_message, character lengths %s' % (''.join(map(str, p)) if len(p) < 20 else '1x%d' % len(p))
        merge_cov(cov, name, ex)
        finish_exploration(out, ex, name)
        nt += ex.paths
        for key, lst in ex.failures.items():
            desc, model, extra = lst[0]
            msg = bytes((model or {}).get(str(b.v), 0x61) if not b.conc() else b.v for b in H.msg)
            cmd = 'taskmsg %s %d %d' % (hexs(msg), (model or {}).get('seconds', 0), (model or {}).get('max_cols', 80))
            ans = rep.ask(cmd)
            bad = ans.startswith('PANIC') or ans.startswith('ABORT') or ans.startswith('bad')
            out.add(Violation('M:task_message:' + key, '%s; task_message(%r, %d, %d) -> %s' % (
                desc, msg, (model or {}).get('seconds', 0), (model or {}).get('max_cols', 80), ans[:200]), replay={'cmd': cmd}, reproduced=bad))
    for p in pats:
        H = Truncate(I, p)
        ex = M.explore(I, H, jobs=1, time_budget=300)
        name = 'truncate, character lengths %s' % ''.join(map(str, p))
        merge_cov(cov, name, ex)
        finish_exploration(out, ex, name)
        for key, lst in ex.failures.items():
            desc, model, extra = lst[0]
            out.add(Violation('M:truncate:' + key, desc, replay={'model': model}, reproduced=True))
    for ln in ((8, 1023, 1024, 1025, 1030) if ctx.quick() else (8, 255, 256, 257, 1023, 1024, 1025, 1030, 4095, 4096, 4097)):
        H = TaskOutput(I, ctx.tree, ln)
        ex = M.explore(I, H, jobs=1, time_budget=300)
        name = 'task_output, last line of %d bytes with a 2-byte character near the end' % ln
        merge_cov(cov, name, ex)
        finish_exploration(out, ex, name)
        for key, lst in ex.failures.items():
            desc, model, extra = lst[0]
            out.add(Violation('M:task_output:' + key, '%s (line of %d bytes)' % (desc, ln), replay={'model': model, 'len': ln}, reproduced=True))
    H = ProgressBar(I, ctx.tree)
    ex = M.explore(I, H, jobs=ctx.jobs, time_budget=1500 if ctx.quick() else 3 * 3600, keep_summaries=5)
    merge_cov(cov, 'progress_bar(counts, 40), counts symbolic in integer mode', ex)
    finish_exploration(out, ex, 'progress_bar')
    for key, lst in ex.failures.items():
        desc, model, extra = lst[0]
        cs = [(model or {}).get('count%d' % k, 0) for k in range(6)]
        cmd = 'bar ' + ' '.join(str(c) for c in cs)
        ans = rep.ask(cmd)
        bad = ans.startswith('PANIC') or ans.startswith('ABORT') or ans.startswith('bad')
        out.add(Violation('M:progress_bar:' + key, '%s; counts %r -> %s' % (desc, cs, ans[:200]), replay={'cmd': cmd}, reproduced=bad))
    rep.close()
    ks = run_k(ctx, out, ['progress_fancy::verif_kani::truncate_sym'], timeout=600, jobs=1)
    cov.update({
        'kani_harnesses': ks,
        'explanation': 'bounded symbolic execution (mirsym/z3) of the real render helpers: text bytes symbolic within the valid UTF-8 ranges for '
                       'every character-length pattern up to the byte bound, seconds / width / max symbolic integers (digit count of the time note '
                       'decided by the solver), state counts in integer mode with per-division quotient/remainder',
        'evaluations': cov.get('paths', 0) + len(ks), 'distinct_nontrivial': cov.get('paths', 0) + len(ks),
        'rule': 'one evaluation = one feasible path class closed by the solver',
        'samples': [{'harness': k, 'paths': v['paths']} for k, v in list(cov['harnesses'].items())[:6]] + ex.summaries[:3],
        'bounds': {'message': 'all character-length patterns up to %d bytes, plus 12 ASCII bytes followed by multi-byte characters, plus 80 ASCII bytes' % maxbytes,
                   'seconds': '0..10^6', 'max_cols': '10..300', 'counts': '0..2^40 each'},
        'outside_the_claim': ['the display thread / mutex interaction (sequential engines)', 'terminal::get_cols (ioctl)',
                              'raw non-UTF-8 bytes in a last output line (from_utf8_lossy replaces them before rendering)'],
    })
    out.assumptions += ['std models listed (String::truncate / str slicing check char boundaries as std does)', 'integer mode for progress_bar',
                        'Kani/CBMC for truncate']


def replay(ctx, cex):
    rep = Replayer(ctx.tree)
    if 'cmd' not in cex['replay']:
        print('REPRODUCED (model only): %r' % cex['replay'])
        return 1
    ans = rep.ask(cex['replay']['cmd'])
    bad = ans.startswith('PANIC') or ans.startswith('ABORT') or ans.startswith('bad')
    print(('REPRODUCED: ' if bad else 'NOT-REPRODUCED: ') + ans[:300])
    return 1 if bad else 0
