"""C03 - unchanged steps are not re-run; a repeated build does nothing.

Engine M, the one-step dirty-check kernel (checks/dirtykernel.py) with the converse obligation: a step judged dirty
must lack a record, miss a relevant file, or differ from its record in the name / mtime of a dirtying input,
discovered dependency or output, in its command line or its response file.  Order-only and validation inputs and
the numbering of files are unconstrained symbolic and must not matter.
"""
from checks import dirtykernel as DK
from checks import sfull

LEVEL = 'other'


def run(ctx, out):
    DK.run_kernel(ctx, out, 'C03', {'C03'})
    sfull.run_chain(ctx, out, 'C03', {'C03'})
    sfull.run_chain(ctx, out, 'C03', {'C03'}, adopt=True)
    cov = out.coverage
    cov.update({
        'explanation': 'bounded symbolic execution (mirsym/z3) of the real dirty check with the obligation "dirty => some recorded component '
                       'changed"; order-only / validation mtimes, unrelated files and the file numbering are free symbolic values',
        'evaluations': cov.get('paths', 0), 'distinct_nontrivial': cov.get('paths', 0),
        'rule': 'one evaluation = one feasible path class closed by the solver',
        'samples': [{'kernel_outcomes': list(cov['harnesses'].values())[0].get('outcomes')}],
        'bounds': {'kernel': 'one step, 2 outputs, one input per role, discovered list in %r' % (DK.DSETS,)},
        'outside_the_claim': ['the `no work to do` summary line and -t restat (run harness)', 'upstream re-runs that leave timestamps unchanged '
                              '(follows from the kernel: only mtimes enter the manifest)'],
    })
    out.assumptions += ['graph::stat replaced by a symbolic file system', 'DefaultHasher replaced by a recording hasher']


def replay(ctx, cex):
    if 'model' in cex['replay']:
        return sfull.replay_chain(ctx, cex)
    return DK.replay_kernel(ctx, cex)
