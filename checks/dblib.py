"""M harness pieces for the build log (src/db.rs): an in-memory model of the log file (append-only byte list with a
symbolic surviving length) behind std::fs::{OpenOptions, File}, BufReader::read_exact and Write::write_all."""
import z3

import mirsym as M
from mirsym import Agg, BoolV, Cell, IntV, Opaque, Ref, SliceRef, UNIT, err, none, ok, some, usize, vec
from mirsym.build import Layout, World, buildid, fileid, hashmap, densemap, dm_items
from mirsym.models import as_slice, elems


class Disk:
    """the log file: bytes written so far, of which only the first `vis` are on disk (vis may be symbolic)"""

    def __init__(self):
        self.exists = False
        self.data = []
        self.vis = 0          # int or IntV
        self.writes = []      # (offset, length) of every write_all
        self.set_len_calls = []

    def vis_int(self, I):
        if isinstance(self.vis, IntV):
            self.vis = I.concretize(self.vis, 'surviving log length', limit=4096)
        return self.vis


def file_agg(disk):
    return Agg('File', [], meta={'disk': disk, 'pos': 0})


def install(I, H):
    """H.disk is the Disk of the current path"""
    def m_oo_new(I, args, callee):
        return Agg('OpenOptions', [])

    def m_oo_flag(I, args, callee):
        return args[0]

    def m_oo_open(I, args, callee):
        d = H.disk
        if not d.exists:
            return err(Opaque('io::Error', ('NotFound',)))
        return ok(file_agg(d))

    def m_file_create(I, args, callee):
        d = H.disk
        d.exists = True
        d.data = []
        d.vis = 0
        return ok(file_agg(d))

    def m_write_all(I, args, callee):
        f = I.deref(args[0])
        d = f.meta['disk']
        n = d.vis_int(I)
        del d.data[n:]
        bs = list(elems(I, as_slice(I, args[1])))
        d.writes.append((n, len(bs)))
        d.data.extend(bs)
        d.vis = len(d.data)
        return ok(UNIT)

    def m_bufreader_new(I, args, callee):
        return Agg('BufReader', [args[0]])

    def m_read_exact(I, args, callee):
        br = I.deref(args[0])
        f = I.deref(br.fields[0])
        d = f.meta['disk']
        out = as_slice(I, args[1])
        n = out.len
        pos = f.meta['pos']
        vis = d.vis if isinstance(d.vis, IntV) else usize(d.vis)
        enough = I.binop('Le', usize(pos + n), vis)
        if not I.branch_bool(enough):
            # std: on UnexpectedEof the buffer content and the reader position are unspecified
            f.meta['pos'] = pos + n  # poison: any later successful read would be a modelling error
            return err(Opaque('io::Error', ('UnexpectedEof',)))
        lst, start, ln = I.elems_of(out)
        for i in range(n):
            lst[start + i] = d.data[pos + i]
        f.meta['pos'] = pos + n
        return ok(UNIT)

    def m_set_len(I, args, callee):
        f = I.deref(args[0])
        d = f.meta['disk']
        n = args[1]
        vis = d.vis if isinstance(d.vis, IntV) else usize(d.vis)
        d.set_len_calls.append(n)
        # File::set_len may also extend with zeros; the log never wants that
        I.oblige(I.binop('Le', n, vis), 'set_len-extends', 'File::set_len beyond the current length would pad the log with zero bytes')
        nv = I.concretize(n, 'set_len', limit=4096)
        d.vis = nv
        del d.data[nv:]
        return ok(UNIT)

    def m_err_kind(I, args, callee):
        e = I.deref(args[0])
        return Agg('ErrorKind', [], e.parts[0])

    def m_metadata_len(I, args, callee):
        raise M.Unsupported('File::metadata is not modelled')

    I.add_enum('ErrorKind', ['NotFound', 'PermissionDenied', 'UnexpectedEof', 'Other'])
    return [
        (r'^(std::fs::)?OpenOptions::new$', m_oo_new),
        (r'^(std::fs::)?OpenOptions::(read|append|write|create|truncate)$', m_oo_flag),
        (r'^(std::fs::)?OpenOptions::open::', m_oo_open),
        (r'^(std::fs::)?File::create::', m_file_create),
        (r'^<(std::fs::)?File as (std::io::)?Write>::write_all$|^<impl Write as (std::io::)?Write>::write_all$|^<W as (std::io::)?Write>::write_all$', m_write_all),
        (r'^(std::io::)?BufReader::<.*>::new$', m_bufreader_new),
        (r'^<(std::io::)?BufReader<.*> as (std::io::)?Read>::read_exact$', m_read_exact),
        (r'^(std::fs::)?File::set_len$', m_set_len),
        (r'^std::io::Error::kind$', m_err_kind),
        (r'^(std::fs::)?File::metadata$', m_metadata_len),
    ]


def empty_hashes(L):
    return Agg('Hashes', [hashmap()])


def hashes_dict(h):
    """BuildId index -> IntV hash"""
    out = {}
    for ent in h.fields[0].fields:
        out[ent.fields[0].fields[0].v] = ent.fields[1].fields[0]
    return out
